// Package zzverif holds the harness intrinsics. Under the symbolic engine
// (symgo) every function here is intercepted: nondeterministic values become
// SMT variables, Assume/Assert/Cover/Known become path-condition operations.
// Compiled natively (go test -overlay) the same functions read a recorded
// replay vector, so a solver model can be re-run against the real build.
package zzverif

import (
	"bufio"
	"fmt"
	"os"
	"runtime/debug"
	"sort"
	"strconv"
	"strings"
)

type state struct {
	vec      []uint64
	pos      int
	covers   map[string]bool
	knowns   map[string]bool
	under    bool
	observed []string
}

var st = &state{covers: map[string]bool{}, knowns: map[string]bool{}}

type assertFail struct{ msg string }
type assumeFail struct{}

func next() uint64 {
	if st.pos >= len(st.vec) {
		st.under = true
		st.pos++
		return 0
	}
	v := st.vec[st.pos]
	st.pos++
	return v
}

func Byte() byte     { return byte(next()) }
func Bool() bool     { return next()&1 != 0 }
func Int8() int8     { return int8(next()) }
func Uint8() uint8   { return uint8(next()) }
func Int16() int16   { return int16(next()) }
func Uint16() uint16 { return uint16(next()) }
func Int32() int32   { return int32(next()) }
func Uint32() uint32 { return uint32(next()) }
func Int64() int64   { return int64(next()) }
func Uint64() uint64 { return next() }
func Int() int       { return int(next()) }
func Uint() uint     { return uint(next()) }

// IntRange returns a nondeterministic value in [lo,hi]; the engine forks on
// every feasible value (explicit small symbolic size).
func IntRange(lo, hi int) int {
	v := int(next())
	if v < lo || v > hi {
		panic(assumeFail{})
	}
	return v
}

func Bytes(n int) []byte {
	b := make([]byte, n)
	for i := range b {
		b[i] = Byte()
	}
	return b
}

func String(n int) string { return string(Bytes(n)) }

func Assume(c bool) {
	if !c {
		panic(assumeFail{})
	}
}

func Assert(c bool, msg string) {
	if !c {
		panic(assertFail{msg})
	}
}

// Fail is Assert(false, msg) reached on a path the harness considers wrong.
func Fail(msg string) { panic(assertFail{msg}) }

func Cover(label string) { st.covers[label] = true }

// Known marks the current input as lying inside the region of a recorded
// known finding when c holds.
func Known(key string, c bool) {
	// a later call with the same key replaces the earlier condition
	if c {
		st.knowns[key] = true
	} else {
		delete(st.knowns, key)
	}
}

// Observe records a value for concrete differential validation of the engine.
func Observe(label string, v any) {
	st.observed = append(st.observed, fmt.Sprintf("%s=%v", label, v))
}

func And(a, b bool) bool     { return a && b }
func Or(a, b bool) bool      { return a || b }
func Not(a bool) bool        { return !a }
func Implies(a, b bool) bool { return !a || b }
func Iff(a, b bool) bool     { return a == b }

func IteByte(c bool, a, b byte) byte {
	if c {
		return a
	}
	return b
}
func IteInt(c bool, a, b int) int {
	if c {
		return a
	}
	return b
}
func IteInt64(c bool, a, b int64) int64 {
	if c {
		return a
	}
	return b
}
func IteUint64(c bool, a, b uint64) uint64 {
	if c {
		return a
	}
	return b
}
func IteBool(c bool, a, b bool) bool {
	if c {
		return a
	}
	return b
}

// EqString / EqBytes compare without branching in the engine.
func EqString(a, b string) bool { return a == b }
func EqBytes(a, b []byte) bool  { return string(a) == string(b) }

// Symbolic reports whether the code runs under the symbolic engine.
func Symbolic() bool { return false }

func keys(m map[string]bool) string {
	var ks []string
	for k := range m {
		ks = append(ks, k)
	}
	sort.Strings(ks)
	return strings.Join(ks, ",")
}

func runOne(idx string, f func([]int), args []int, vec []uint64) {
	st = &state{vec: vec, covers: map[string]bool{}, knowns: map[string]bool{}}
	status := "ok"
	detail := ""
	func() {
		defer func() {
			if r := recover(); r != nil {
				switch x := r.(type) {
				case assertFail:
					status, detail = "assert", x.msg
				case assumeFail:
					status = "assume"
				default:
					status = "panic"
					detail = fmt.Sprint(r)
					if os.Getenv("ZZ_STACK") != "" {
						detail += "\n" + string(debug.Stack())
					}
				}
			}
		}()
		f(args)
	}()
	if st.under {
		status = "underflow:" + status
	}
	fmt.Printf("ZZRESULT %s status=%s covers=%s knowns=%s used=%d detail=%s\n", idx, status, keys(st.covers), keys(st.knowns), st.pos, strconv.Quote(detail))
	if len(st.observed) > 0 {
		fmt.Printf("ZZOBS %s %s\n", idx, strconv.Quote(strings.Join(st.observed, ";")))
	}
}

func parseInts(s string) []int {
	var out []int
	for _, f := range strings.Split(s, ",") {
		f = strings.TrimSpace(f)
		if f == "" {
			continue
		}
		v, err := strconv.ParseInt(f, 10, 64)
		if err != nil {
			panic(err)
		}
		out = append(out, int(v))
	}
	return out
}

func parseVec(s string) []uint64 {
	var out []uint64
	for _, f := range strings.Split(s, ",") {
		f = strings.TrimSpace(f)
		if f == "" {
			continue
		}
		v, err := strconv.ParseUint(f, 10, 64)
		if err != nil {
			panic(err)
		}
		out = append(out, v)
	}
	return out
}

// RunNative is called from the generated TestZZReplay. ZZ_BATCH names a file
// with one run per line: "<idx> <entry> <args,comma> <vector,comma>" ("-" for
// an empty list).
func RunNative(entries map[string]func([]int)) {
	path := os.Getenv("ZZ_BATCH")
	if path == "" {
		fmt.Println("ZZ_BATCH not set; nothing to replay")
		return
	}
	f, err := os.Open(path)
	if err != nil {
		panic(err)
	}
	defer f.Close()
	sc := bufio.NewScanner(f)
	sc.Buffer(make([]byte, 1<<20), 1<<26)
	for sc.Scan() {
		fs := strings.Fields(sc.Text())
		if len(fs) != 4 {
			continue
		}
		e, ok := entries[fs[1]]
		if !ok {
			fmt.Printf("ZZRESULT %s status=noentry covers= knowns= used=0 detail=%q\n", fs[0], fs[1])
			continue
		}
		a, v := fs[2], fs[3]
		if a == "-" {
			a = ""
		}
		if v == "-" {
			v = ""
		}
		runOne(fs[0], e, parseInts(a), parseVec(v))
	}
}
