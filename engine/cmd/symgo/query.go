package main

// Query layer: independence slicing (only the constraints that share
// variables, transitively, with the query are sent), an exact-match result
// cache, the z3 pipe, and one-shot fall-back solvers.

import (
	"fmt"
	"os"
	"sort"
	"strconv"
	"strings"
	"time"
)

type cacheEntry struct {
	res  Result
	vals map[string]uint64
}

// varsOf returns the sorted ids of the variables occurring in t (memoised).
func (tb *TB) varsOf(t *Term) []int {
	if t.op == OpConst {
		return nil
	}
	if v, ok := tb.varsMemo[t.id]; ok {
		return v
	}
	var out []int
	if t.op == OpVar {
		out = []int{t.id}
		tb.varTerm[t.id] = t
	} else {
		for _, k := range []*Term{t.a, t.b, t.c} {
			if k != nil {
				out = mergeSorted(out, tb.varsOf(k))
			}
		}
	}
	tb.varsMemo[t.id] = out
	return out
}

func mergeSorted(a, b []int) []int {
	if len(a) == 0 {
		return b
	}
	if len(b) == 0 {
		return a
	}
	out := make([]int, 0, len(a)+len(b))
	i, j := 0, 0
	for i < len(a) && j < len(b) {
		switch {
		case a[i] == b[j]:
			out = append(out, a[i])
			i++
			j++
		case a[i] < b[j]:
			out = append(out, a[i])
			i++
		default:
			out = append(out, b[j])
			j++
		}
	}
	out = append(out, a[i:]...)
	out = append(out, b[j:]...)
	return out
}

// slice returns the constraints of pc relevant to extra and the set of
// variables involved.
func (in *Interp) slice(extra []*Term) ([]*Term, map[int]bool) {
	rel := map[int]bool{}
	for _, e := range append(append([]*Term(nil), extra...), in.focus...) {
		for _, v := range in.tb.varsOf(e) {
			rel[v] = true
		}
	}
	included := make([]bool, len(in.pc))
	var out []*Term
	for changed := true; changed; {
		changed = false
		for i, c := range in.pc {
			if included[i] {
				continue
			}
			vs := in.tb.varsOf(c)
			hit := false
			for _, v := range vs {
				if rel[v] {
					hit = true
					break
				}
			}
			if hit {
				included[i] = true
				out = append(out, c)
				for _, v := range vs {
					if !rel[v] {
						rel[v] = true
						changed = true
					}
				}
			}
		}
	}
	return out, rel
}

func queryKey(cons, extra []*Term) string {
	ids := make([]int, 0, len(cons)+len(extra))
	for _, c := range cons {
		ids = append(ids, c.id)
	}
	for _, e := range extra {
		ids = append(ids, e.id)
	}
	sort.Ints(ids)
	var sb strings.Builder
	for _, id := range ids {
		sb.WriteString(strconv.Itoa(id))
		sb.WriteByte(',')
	}
	return sb.String()
}

// query decides pc ∧ extra. When sat, the returned model is a model of the
// whole path condition and extra.
func (in *Interp) queryFocus(extra, focus []*Term, fallback time.Duration) (Result, *Model) {
	in.focus = focus
	defer func() { in.focus = nil }()
	return in.query(extra, fallback)
}

func (in *Interp) query(extra []*Term, fallback time.Duration) (Result, *Model) {
	// never let one query run past the case deadline
	if !in.deadline.IsZero() {
		remain := time.Until(in.deadline)
		if remain < 2*time.Second {
			remain = 2 * time.Second
		}
		if fallback > remain {
			fallback = remain
		}
	}
	for _, e := range extra {
		if e == in.tb.False {
			return Unsat, nil
		}
	}
	var base *Model
	if len(in.models) > 0 {
		base = in.models[0]
	}
	var cons []*Term
	var rel map[int]bool
	if base != nil {
		cons, rel = in.slice(extra)
	} else {
		cons = in.pc
		rel = map[int]bool{}
		for _, v := range in.inputs {
			rel[v.id] = true
			in.tb.varTerm[v.id] = v
		}
	}
	if in.inPath && !in.deadline.IsZero() && time.Now().After(in.deadline) {
		panic(budgetErr{"time budget exhausted inside a path"})
	}
	key := queryKey(cons, extra)
	for _, f := range in.focus {
		key += "f" + strconv.Itoa(f.id)
	}
	ent, ok := in.qcache[key]
	if ok {
		in.qcacheHits++
	} else {
		vars := make([]*Term, 0, len(rel))
		for id := range rel {
			if vt := in.tb.varTerm[id]; vt != nil {
				vars = append(vars, vt)
			}
		}
		sort.Slice(vars, func(i, j int) bool { return vars[i].id < vars[j].id })
		all := append(append([]*Term(nil), cons...), extra...)
		var res Result = Unknown
		var vals map[string]uint64
		hard := in.hardArith(all)
		if hard && !in.wideDivision(all) {
			// cheap attempt on the bit-vector pipe first (small ranges bit-blast instantly)
			res, vals = in.solver.CheckSetTimeout(all, vars, 250)
		}
		if res == Unknown && hard && os.Getenv("SYMGO_NOINT") == "" {
			to := fallback
			if to <= 0 || to > 40*time.Second {
				to = 40 * time.Second
			}
			if r, v, ok := in.solver.CheckInt(in.tb, all, to, in.rng); ok {
				res, vals = r, v
			}
		}
		if res == Unknown && in.cfg.prefer != "" && hard {
			res, vals, _ = in.solver.CheckOneShot(all, nil, vars, fallback, in.cfg.prefer)
		}
		if res == Unknown {
			res, vals = in.solver.CheckSet(all, vars)
		}
		if res == Unknown && fallback > 0 {
			res, vals, _ = in.solver.CheckOneShot(all, nil, vars, fallback, "")
		}
		if res != Unknown && intDiff {
			// differential validation of the integer translation against the bit-vector verdict
			if r2, _, ok := in.solver.CheckInt(in.tb, all, 20*time.Second, in.rng); ok && r2 != res {
				fmt.Fprintf(os.Stderr, "INT-DIFF DISAGREEMENT: bv=%s int=%s\n", res, r2)
				in.cs.Inconclusive = append(in.cs.Inconclusive, "integer translation disagrees with the bit-vector verdict")
				if d := os.Getenv("SYMGO_KEEPQ"); d != "" {
					os.MkdirAll(d, 0o755)
					os.WriteFile(fmt.Sprintf("%s/intdiff-%d.smt2", d, time.Now().UnixNano()), []byte(Script(all, nil, nil, "")), 0o644)
				}
			} else if ok {
				in.intDiffOK++
			}
		}
		ent = cacheEntry{res, vals}
		if res != Unknown {
			in.qcache[key] = ent
		}
	}
	if ent.res != Sat {
		return ent.res, nil
	}
	vals := map[string]uint64{}
	if base != nil {
		for k, v := range base.vals {
			vals[k] = v
		}
	}
	// only the variables of the slice may be overridden: a cached entry can
	// carry values of further variables that are constrained elsewhere on this path
	relNames := map[string]bool{}
	for id := range rel {
		if vt := in.tb.varTerm[id]; vt != nil {
			relNames[vt.name] = true
		}
	}
	for k, v := range ent.vals {
		if relNames[k] {
			vals[k] = v
		}
	}
	m := NewModel(vals)
	// safety net: a model handed out must satisfy the whole path condition and the query
	for _, c := range append(append([]*Term(nil), in.pc...), extra...) {
		if m.Eval(c) == 0 {
			fmt.Fprintf(os.Stderr, "ENGINE: composed model violates %s (cached=%v base=%v key=%s)\n", c.String(), ok, base != nil, key)
			delete(in.qcache, key)
			in.badModels++
			return Unknown, nil
		}
	}
	return Sat, m
}

// hardArith reports whether the terms contain wide multiplication/division
// (the kernels bit-blasting stalls on).
func (in *Interp) hardArith(ts []*Term) bool {
	seen := map[int]bool{}
	var stack []*Term
	stack = append(stack, ts...)
	constMuls := 0
	for len(stack) > 0 {
		t := stack[len(stack)-1]
		stack = stack[:len(stack)-1]
		if t == nil || seen[t.id] {
			continue
		}
		seen[t.id] = true
		switch t.op {
		case OpUDiv, OpSDiv, OpURem, OpSRem:
			if t.w >= 32 {
				return true
			}
		case OpMul:
			if t.w >= 32 && !t.a.IsConst() && !t.b.IsConst() {
				return true
			}
			if t.w >= 32 && in.tb.rangeOf(t).hi > 1<<16 {
				// chains of wide multiplications by constants (Horner evaluation of a long digit string) stall
				// bit-blasting as well once they are a few levels deep; products known to stay small do not
				constMuls++
				if constMuls >= 3 {
					return true
				}
			}
		}
		stack = append(stack, t.a, t.b, t.c)
	}
	return false
}

var intDiff = os.Getenv("SYMGO_INTDIFF") != ""

// wideDivision: a 64-bit division/remainder occurs (bit-blasting is hopeless; go to the integer translation at once).
func (in *Interp) wideDivision(ts []*Term) bool {
	seen := map[int]bool{}
	var stack []*Term
	stack = append(stack, ts...)
	for len(stack) > 0 {
		t := stack[len(stack)-1]
		stack = stack[:len(stack)-1]
		if t == nil || seen[t.id] {
			continue
		}
		seen[t.id] = true
		switch t.op {
		case OpUDiv, OpSDiv, OpURem, OpSRem:
			if t.w >= 64 && in.tb.rangeOf(t.a).hi > 1<<20 {
				return true
			}
		}
		stack = append(stack, t.a, t.b, t.c)
	}
	return false
}
