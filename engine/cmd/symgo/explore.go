package main

// Path exploration by re-execution: a path is a vector of decisions; the
// interpreter is deterministic given that vector.

import (
	"fmt"
	"os"
	"sort"
	"strings"
	"time"
)

type Decision struct {
	val    uint64
	forced bool // implied by the path condition: no constraint is added
}

type pendingPath struct {
	prefix []Decision
	model  *Model
}

// control-flow signals (Go panics caught by runPath)
type pathEnd struct {
	reason string // "assume", "infeasible", "done"
}
type unsupportedErr struct{ what string }
type budgetErr struct{ what string }

func unsupported(what string) unsupportedErr { return unsupportedErr{what} }

func (e unsupportedErr) Error() string { return "unsupported: " + e.what }

var forkProfile map[string]int

type knownCond struct {
	key  string
	cond *Term
}

type Violation struct {
	Case     string
	Msg      string
	Kind     string // "assert" or "panic"
	Model    *Model
	Vector   []uint64
	Knowns   []string // known keys satisfied by this witness (empty: unlisted)
	Site     string
	PathDesc string
}

type CaseStats struct {
	Paths           int
	BranchPoints    int
	Forks           int
	Steps           int64
	AssertsProved   int
	AssertsConcrete int
	RangeDecided    int
	AssertQueries   int
	Inconclusive    []string
	Covers          map[string]int
	AssertSites     map[string]int
	FuncsSym        map[string]bool
	ModelsHit       map[string]int
	Summaries       map[string]int
	Samples         []map[string]any
	Witnesses       []Witness
	MaxPathSteps    int64
	Wall            time.Duration
}

type Witness struct {
	Case   string
	Vector []uint64
	Status string // expected native status: "ok" / "assert" / "panic"
	Covers []string
}

func newCaseStats() *CaseStats {
	return &CaseStats{Covers: map[string]int{}, AssertSites: map[string]int{}, FuncsSym: map[string]bool{}, ModelsHit: map[string]int{}, Summaries: map[string]int{}}
}

func (in *Interp) addPC(c *Term) {
	if c == in.tb.True {
		return
	}
	in.pc = append(in.pc, c)
	in.ctxHarvest(c, false)
	// filter the model cache
	k := 0
	for _, m := range in.models {
		if m.Eval(c) != 0 {
			in.models[k] = m
			k++
		}
	}
	in.models = in.models[:k]
}

func (in *Interp) inputVars() []*Term { return in.inputs }

// feasible reports whether pc ∧ c is satisfiable; unknown counts as feasible
// (over-approximation) but is remembered.
func (in *Interp) feasible(c *Term) (bool, *Model) {
	for _, m := range in.models {
		if m.Eval(c) != 0 {
			in.cacheHits++
			return true, m
		}
	}
	res, m := in.query([]*Term{c}, 20*time.Second)
	switch res {
	case Sat:
		return true, m
	case Unsat:
		return false, nil
	}
	in.unknownFeas++
	in.pathMaybeInfeasible = true
	return true, nil
}

func (in *Interp) noteSym() {
	if in.curFn != nil {
		in.cs.FuncsSym[in.curFn.String()] = true
	}
}

// branch decides a (possibly symbolic) condition, forking when both sides are
// feasible.
func (in *Interp) branch(c *Term) bool {
	if c.w != 0 {
		panic("branch on non-bool")
	}
	if c.IsConst() {
		return c.val != 0
	}
	in.noteSym()
	if in.dpos < len(in.prefix) {
		d := in.prefix[in.dpos]
		in.dpos++
		in.trace = append(in.trace, d)
		if !d.forced {
			if d.val != 0 {
				in.addPC(c)
			} else {
				in.addPC(in.tb.Not(c))
			}
		}
		return d.val != 0
	}
	in.cs.BranchPoints++
	if v, ok := in.decideByRange(c); ok {
		in.cs.RangeDecided++
		in.trace = append(in.trace, Decision{val: b2u(v), forced: true})
		return v
	}
	nc := in.tb.Not(c)
	tf, tm := in.feasible(c)
	ff, fm := in.feasible(nc)
	switch {
	case tf && ff:
		in.cs.Forks++
		if forkProfile != nil {
			forkProfile[in.where()]++
		}
		alt := append(append([]Decision(nil), in.trace...), Decision{val: 0})
		in.pending = append(in.pending, pendingPath{prefix: alt, model: fm})
		in.trace = append(in.trace, Decision{val: 1})
		in.addPC(c)
		in.addModel(tm)
		return true
	case tf:
		in.trace = append(in.trace, Decision{val: 1, forced: true})
		return true
	case ff:
		in.trace = append(in.trace, Decision{val: 0, forced: true})
		return false
	}
	// neither side feasible: the path condition itself is unsatisfiable
	panic(pathEnd{"infeasible"})
}

const concretizeCap = 256

// concretize forks on every feasible value of t (cap 64).
func (in *Interp) concretize(t *Term, what string) uint64 {
	if t.IsConst() {
		return t.val
	}
	in.noteSym()
	if in.dpos < len(in.prefix) {
		d := in.prefix[in.dpos]
		in.dpos++
		in.trace = append(in.trace, d)
		if !d.forced {
			in.addPC(in.tb.Eq(t, in.tb.Const(t.w, d.val)))
		}
		return d.val
	}
	in.cs.BranchPoints++
	type opt struct {
		v uint64
		m *Model
	}
	var opts []opt
	var excl []*Term
	seen := map[uint64]bool{}
	for _, m := range in.models {
		v := m.Eval(t)
		if !seen[v] {
			seen[v] = true
			opts = append(opts, opt{v, m})
			excl = append(excl, in.tb.Not(in.tb.Eq(t, in.tb.Const(t.w, v))))
		}
	}
	for {
		if len(opts) > concretizeCap {
			in.cs.Inconclusive = append(in.cs.Inconclusive, fmt.Sprintf("concretisation cap exceeded (%s) in %s", what, in.where()))
			break
		}
		res, m := in.queryFocus(excl, []*Term{t}, 20*time.Second)
		if res == Unsat {
			break
		}
		if res == Unknown {
			in.cs.Inconclusive = append(in.cs.Inconclusive, fmt.Sprintf("unknown while concretising %s in %s", what, in.where()))
			break
		}
		v := m.Eval(t)
		if seen[v] {
			// should not happen
			in.cs.Inconclusive = append(in.cs.Inconclusive, "concretise: repeated value")
			break
		}
		seen[v] = true
		opts = append(opts, opt{v, m})
		excl = append(excl, in.tb.Not(in.tb.Eq(t, in.tb.Const(t.w, v))))
	}
	if len(opts) == 0 {
		panic(pathEnd{"infeasible"})
	}
	sort.Slice(opts, func(i, j int) bool { return opts[i].v < opts[j].v })
	if len(opts) == 1 {
		in.trace = append(in.trace, Decision{val: opts[0].v, forced: true})
		return opts[0].v
	}
	in.cs.Forks += len(opts) - 1
	for i := len(opts) - 1; i >= 1; i-- {
		alt := append(append([]Decision(nil), in.trace...), Decision{val: opts[i].v})
		in.pending = append(in.pending, pendingPath{prefix: alt, model: opts[i].m})
	}
	in.trace = append(in.trace, Decision{val: opts[0].v})
	in.addPC(in.tb.Eq(t, in.tb.Const(t.w, opts[0].v)))
	in.addModel(opts[0].m)
	return opts[0].v
}

func (in *Interp) assume(c *Term) {
	if c.IsConst() {
		if c.val == 0 {
			panic(pathEnd{"assume"})
		}
		return
	}
	in.noteSym()
	// An assumption is a forced-true branch.
	if in.dpos < len(in.prefix) {
		d := in.prefix[in.dpos]
		in.dpos++
		in.trace = append(in.trace, d)
		in.addPC(c)
		return
	}
	ok, m := in.feasible(c)
	if !ok {
		panic(pathEnd{"assume"})
	}
	in.trace = append(in.trace, Decision{val: 1})
	in.addPC(c)
	in.addModel(m)
}

func (in *Interp) addModel(m *Model) {
	if m == nil {
		return
	}
	for _, x := range in.models {
		if x == m {
			return
		}
	}
	if len(in.models) >= 12 {
		copy(in.models, in.models[1:])
		in.models = in.models[:len(in.models)-1]
	}
	in.models = append(in.models, m)
}

func (in *Interp) replaying() bool { return in.dpos < len(in.prefix) }

// fresh creates a new nondeterministic input variable.
func (in *Interp) fresh(w int) *Term {
	if in.pinned != nil {
		i := len(in.inputs)
		var v uint64
		if i < len(in.pinned) {
			v = in.pinned[i]
		}
		c := in.tb.Const(w, v)
		in.inputs = append(in.inputs, c)
		return c
	}
	name := fmt.Sprintf("in%d_%d", len(in.inputs), w)
	v := in.tb.Var(w, name)
	in.inputs = append(in.inputs, v)
	return v
}

func (in *Interp) vector(m *Model) []uint64 {
	out := make([]uint64, len(in.inputs))
	for i, v := range in.inputs {
		if m != nil {
			out[i] = m.Eval(v)
		}
	}
	return out
}

func (in *Interp) where() string {
	if in.curFn == nil {
		return "?"
	}
	if in.curInstr != nil {
		pos := in.prog.Fset.Position(in.curInstr.Pos())
		if pos.IsValid() {
			return fmt.Sprintf("%s (%s:%d)", in.curFn.String(), shortPath(pos.Filename), pos.Line)
		}
	}
	return in.curFn.String()
}

func shortPath(p string) string {
	if i := strings.LastIndex(p, "/"); i >= 0 {
		if j := strings.LastIndex(p[:i], "/"); j >= 0 {
			return p[j+1:]
		}
	}
	return p
}

// pathModel returns a model of the current path condition.
func (in *Interp) pathModel() (*Model, Result) {
	if len(in.models) > 0 {
		return in.models[0], Sat
	}
	res, m := in.query(nil, 30*time.Second)
	if res == Sat {
		in.models = append(in.models, m)
		return m, Sat
	}
	return nil, res
}

// decideAssert discharges one assertion: pc ∧ ¬cond must be unsat outside the
// listed known-finding regions.
func (in *Interp) decideAssert(cond *Term, msg string, kind string) {
	site := in.where()
	if in.replaying() {
		// already discharged by the path this one forked from
		if cond.IsConst() {
			if cond.val == 0 {
				panic(pathEnd{"assert-always-fails"})
			}
			return
		}
		in.addPC(cond)
		return
	}
	in.cs.AssertSites[msg]++
	if cond == in.tb.True {
		in.cs.AssertsConcrete++
		return
	}
	in.noteSym()
	neg := in.tb.Not(cond)
	// known regions listed in known_findings.txt
	var listed []*Term
	listedOr := in.tb.False
	var listedKeys []string
	for _, k := range in.knowns {
		if in.cfg.listedKnown[k.key] {
			listed = append(listed, k.cond)
			listedKeys = append(listedKeys, k.key)
			listedOr = in.tb.Or(listedOr, k.cond)
		}
	}
	notListed := in.tb.Not(listedOr)
	if notListed == in.tb.False || neg == in.tb.False {
		// whole path is inside a known region / assertion trivially true
	} else {
		// pc ∧ ¬(a1 ∧ … ∧ an) is sat iff some pc ∧ ¬ai is: decide the conjuncts
		// separately so that independence slicing keeps each query small.
		conj := flattenAnd(cond, 256)
		proved := true
		for _, c := range conj {
			in.cs.AssertQueries++
			res, vals := in.checkStrong([]*Term{in.tb.Not(c), notListed})
			if res == Sat && os.Getenv("SYMGO_DEBUGVIOL") != "" {
				m := NewModel(vals)
				fmt.Fprintf(os.Stderr, "DEBUGVIOL %s: conjunct %s\n  eval(conjunct)=%d\n", msg, c.String(), m.Eval(c))
				for i, p := range in.pc {
					fmt.Fprintf(os.Stderr, "  pc[%d] eval=%d %s\n", i, m.Eval(p), p.String())
				}
				for _, v := range in.inputs {
					fmt.Fprintf(os.Stderr, "  %s=%d", v.name, m.Eval(v))
				}
				fmt.Fprintln(os.Stderr)
			}
			if res == Sat {
				in.recordViolation(NewModel(vals), msg, kind, site, nil)
				proved = false
				break
			}
			if res == Unknown {
				in.cs.Inconclusive = append(in.cs.Inconclusive, fmt.Sprintf("assertion %q: solver unknown at %s", msg, site))
				proved = false
				break
			}
		}
		if proved {
			in.cs.AssertsProved++
		}
	}
	for i, kc := range listed {
		if kc == in.tb.False {
			continue
		}
		in.cs.AssertQueries++
		res, vals := in.checkStrong([]*Term{neg, kc})
		if res == Sat {
			m := NewModel(vals)
			in.recordViolation(m, msg, kind, site, []string{listedKeys[i]})
		}
	}
	// continue the path under the assertion (later assertions are checked
	// for inputs that pass this one)
	if !cond.IsConst() {
		ok, _ := in.feasible(cond)
		if !ok {
			panic(pathEnd{"assert-always-fails"})
		}
		in.addPC(cond)
	} else if cond.val == 0 {
		panic(pathEnd{"assert-always-fails"})
	}
}

// checkStrong: pipe solver first, then the one-shot fall-backs; in the
// thorough tier unsat verdicts are cross-checked on a second solver.
func (in *Interp) checkStrong(extra []*Term) (Result, map[string]uint64) {
	for _, m := range in.models {
		all := true
		for _, e := range extra {
			if m.Eval(e) == 0 {
				all = false
				break
			}
		}
		if all {
			return Sat, m.vals
		}
	}
	res, m := in.query(extra, time.Duration(in.cfg.assertTimeoutS)*time.Second)
	if res == Unsat && in.cfg.crossCheck {
		// second opinion on a persistent pipe of the other solver (one process per worker; spawning a solver per
		// assertion made thorough runs of 10^5 assertions take hours); identical queries are not asked twice
		cons, _ := in.slice(extra)
		all := append(append([]*Term(nil), cons...), extra...)
		key := in.crossKey(all)
		r2, seen := in.crossCache[key]
		if !seen {
			if in.hardArith(all) {
				// wide division / multiplication chains: second opinion through the integer translation on z3 4.8.12
				// (one-shot, hard limit); the bit-vector pipe does not return from these within minutes
				r2 = in.solver.CrossInt(in.tb, all, 15*time.Second)
				in.crossInt++
			} else {
				if in.cross == nil {
					in.cross = NewSolverBin(in.cfg.crossSolver, 20000)
				}
				r2, _ = in.cross.CheckSet(all, nil)
			}
			if in.crossCache == nil {
				in.crossCache = map[string]Result{}
			}
			in.crossCache[key] = r2
			in.crossChecked++
		}
		if r2 == Sat {
			in.cs.Inconclusive = append(in.cs.Inconclusive, "solver disagreement: pipe solver unsat vs "+in.cfg.crossSolver+" sat at "+in.where())
			return Unknown, nil
		}
	}
	if res == Sat {
		return res, m.vals
	}
	return res, nil
}

func (in *Interp) crossKey(ts []*Term) string {
	ids := make([]int, len(ts))
	for i, t := range ts {
		ids[i] = t.id
	}
	sort.Ints(ids)
	var sb strings.Builder
	for _, id := range ids {
		fmt.Fprintf(&sb, "%d,", id)
	}
	return sb.String()
}

func (in *Interp) recordViolation(m *Model, msg, kind, site string, knowns []string) {
	// de-duplicate by (msg, knowns) per case: keep the first witness
	key := msg + "|" + strings.Join(knowns, ",")
	if in.violSeen[key] >= in.cfg.maxViolPerSite {
		return
	}
	in.violSeen[key]++
	in.violations = append(in.violations, Violation{Case: in.caseName, Msg: msg, Kind: kind, Model: m, Vector: in.vector(m), Knowns: knowns, Site: site})
}

// handlePanic is called when an uncaught Go panic reaches the harness entry.
func (in *Interp) handlePanic(p *goPanic) {
	msg := "panic: " + in.panicText(p)
	site := p.site
	// a panic is Assert(false) at the point the path ends
	if in.pathMaybeInfeasible {
		if _, res := in.pathModel(); res != Sat {
			if res == Unknown {
				in.cs.Inconclusive = append(in.cs.Inconclusive, "panic on a path of unknown feasibility: "+msg)
			}
			return
		}
	}
	in.cs.AssertSites["no-panic"]++
	listedOr := in.tb.False
	var listed []knownCond
	for _, k := range in.knowns {
		if in.cfg.listedKnown[k.key] {
			listed = append(listed, k)
			listedOr = in.tb.Or(listedOr, k.cond)
		}
	}
	nl := in.tb.Not(listedOr)
	if nl != in.tb.False {
		res, vals := in.checkStrong([]*Term{nl})
		if res == Sat {
			in.recordViolation(NewModel(vals), msg, "panic", site, nil)
		} else if res == Unknown {
			in.cs.Inconclusive = append(in.cs.Inconclusive, "panic path: solver unknown: "+msg)
		}
	}
	for _, k := range listed {
		if k.cond == in.tb.False {
			continue
		}
		res, vals := in.checkStrong([]*Term{k.cond})
		if res == Sat {
			in.recordViolation(NewModel(vals), msg, "panic", site, []string{k.key})
		}
	}
}

// flattenAnd splits a conjunction into its conjuncts (up to max pieces).
func flattenAnd(t *Term, max int) []*Term {
	var out []*Term
	stack := []*Term{t}
	for len(stack) > 0 {
		x := stack[len(stack)-1]
		stack = stack[:len(stack)-1]
		if x.op == OpBAnd && len(out)+len(stack) < max {
			stack = append(stack, x.b, x.a)
			continue
		}
		if x.op == OpConst && x.val != 0 {
			continue
		}
		out = append(out, x)
	}
	return out
}

// decideByRange: a comparison atom whose outcome follows from the
// path-sensitive interval analysis is a forced branch (no solver query).
func (in *Interp) decideByRange(c *Term) (bool, bool) {
	if len(in.ctxBounds) == 0 {
		return false, false
	}
	neg := false
	for c.op == OpBNot {
		c = c.a
		neg = !neg
	}
	var res, ok bool
	switch c.op {
	case OpULt, OpULe, OpEq, OpSLt, OpSLe:
		if c.a.w == 0 {
			return false, false
		}
		rx, ry := in.rangeCtx(c.a), in.rangeCtx(c.b)
		op := c.op
		half := uint64(1) << uint(c.a.w-1)
		if op == OpSLt || op == OpSLe {
			if rx.hi < half && ry.hi < half || rx.lo >= half && ry.lo >= half {
				if op == OpSLt {
					op = OpULt
				} else {
					op = OpULe
				}
			} else if rx.hi < half && ry.lo >= half { // x >= 0 > y
				res, ok = false, true
			} else if rx.lo >= half && ry.hi < half { // x < 0 <= y
				res, ok = true, true
			}
		}
		if !ok {
			switch op {
			case OpEq:
				if rx.hi < ry.lo || ry.hi < rx.lo {
					res, ok = false, true
				} else if rx.lo == rx.hi && ry.lo == ry.hi && rx.lo == ry.lo {
					res, ok = true, true
				}
			case OpULt:
				if rx.hi < ry.lo {
					res, ok = true, true
				} else if rx.lo >= ry.hi {
					res, ok = false, true
				}
			case OpULe:
				if rx.hi <= ry.lo {
					res, ok = true, true
				} else if rx.lo > ry.hi {
					res, ok = false, true
				}
			}
		}
	}
	if !ok {
		return false, false
	}
	if neg {
		res = !res
	}
	return res, true
}
