package main

import (
	"encoding/json"
	"fmt"
	"os"
	"path/filepath"
	"sort"
	"strings"
	"time"
)

func uniqStrings(xs []string, max int) []string {
	seen := map[string]bool{}
	var out []string
	for _, x := range xs {
		if !seen[x] {
			seen[x] = true
			out = append(out, x)
		}
	}
	if max > 0 && len(out) > max {
		out = append(out[:max], fmt.Sprintf("… and %d more", len(out)-max))
	}
	return out
}

func report(id string, spec *CheckSpec, o runOpts, results []*unitResult, known map[string]knownEntry, wall time.Duration) int {
	var (
		paths, branchPts, forks, asserts, assertQ, queries, sat, unsat, unknown, cacheHits, crossChecked int
		steps                                                                                            int64
		solverTime                                                                                       time.Duration
		inconclusive                                                                                     []string
		funcs                                                                                            = map[string]bool{}
		models                                                                                           = map[string]int{}
		summaries                                                                                        = map[string]int{}
		fallback                                                                                         = map[string]int{}
		samples                                                                                          []any
		nativeOK                                                                                         int
		confirmed, unconf                                                                                []Violation
		coversTotal, coversReached                                                                       int
		assertSitesTotal, assertSitesReached                                                             int
		missing                                                                                          []string
		initNotes                                                                                        []string
		nCases                                                                                           int
		unitInfo                                                                                         []map[string]any
		maxQuery                                                                                         time.Duration
		assertsConc                                                                                      int
	)
	for _, r := range results {
		if r.err != nil {
			inconclusive = append(inconclusive, fmt.Sprintf("unit %s: %v", r.unit.Name, r.err))
			continue
		}
		covers := map[string]int{}
		asites := map[string]int{}
		up := 0
		for _, c := range r.cases {
			nCases++
			paths += c.Stats.Paths
			up += c.Stats.Paths
			branchPts += c.Stats.BranchPoints
			forks += c.Stats.Forks
			steps += c.Stats.Steps
			asserts += c.Stats.AssertsProved
			assertsConc += c.Stats.AssertsConcrete
			assertQ += c.Stats.AssertQueries
			queries += c.Solver.Queries
			sat += c.Solver.Sat
			unsat += c.Solver.Unsat
			unknown += c.Solver.Unknown
			solverTime += c.Solver.Time
			if c.Solver.MaxQuery > maxQuery {
				maxQuery = c.Solver.MaxQuery
			}
			cacheHits += c.CacheHits
			crossChecked += c.CrossChecked
			for k, v := range c.Solver.Fallback {
				fallback[k] += v
			}
			for _, s := range c.Stats.Inconclusive {
				inconclusive = append(inconclusive, c.Name+": "+s)
			}
			for f := range c.Stats.FuncsSym {
				funcs[f] = true
			}
			for k, v := range c.Stats.ModelsHit {
				models[k] += v
			}
			for k, v := range c.Stats.Summaries {
				summaries[k] += v
			}
			for k, v := range c.Stats.Covers {
				covers[k] += v
			}
			for k, v := range c.Stats.AssertSites {
				asites[k] += v
			}
			for _, s := range c.Stats.Samples {
				if len(samples) < 8 {
					samples = append(samples, s)
				}
			}
			initNotes = append(initNotes, c.InitNotes...)
		}
		nativeOK += r.nativeOK
		for i, sk := range r.skipped {
			if i < 5 {
				inconclusive = append(inconclusive, sk)
			} else {
				inconclusive = append(inconclusive, fmt.Sprintf("%s: %d further cases not run for the same reason", r.unit.Name, len(r.skipped)-5))
				break
			}
		}
		for _, b := range r.nativeBad {
			inconclusive = append(inconclusive, "engine-mismatch: "+b)
		}
		confirmed = append(confirmed, r.confirmed...)
		unconf = append(unconf, r.unconf...)
		want := r.coverAll
		if len(r.unit.Covers) > 0 {
			want = r.unit.Covers
		}
		if o.caseSub == "" {
			for _, l := range want {
				coversTotal++
				if covers[l] > 0 {
					coversReached++
				} else {
					missing = append(missing, r.unit.Name+": cover point never reached: "+l)
				}
			}
			for _, a := range r.assertAll {
				assertSitesTotal++
				if asites[a] > 0 {
					assertSitesReached++
				} else {
					missing = append(missing, r.unit.Name+": assertion never reached: "+a)
				}
			}
		}
		ui := map[string]any{"unit": r.unit.Name, "package": r.unit.Pkg, "cases": r.nCases, "paths": up, "load_s": round2(r.load.Seconds())}
		if st, ok := genStates[r.unit.Name]; ok {
			ui["generated_packages_accepted"] = len(st.accepted)
			ui["specs_rejected_by_generator"] = uniqStrings(st.rejected, 5)
			if r.unit.genBounds != nil {
				ui["bounds"] = r.unit.genBounds
			}
		}
		unitInfo = append(unitInfo, ui)
	}
	for _, v := range unconf {
		if v.Kind == "hang" {
			inconclusive = append(inconclusive, fmt.Sprintf("instruction budget too small, not a hang: the native build finishes on the input of %s (vector %s)", v.Case, vecStr(v.Vector)))
			continue
		}
		inconclusive = append(inconclusive, fmt.Sprintf("engine-mismatch: model for %q in %s did not reproduce natively (vector %s)", v.Msg, v.Case, vecStr(v.Vector)))
	}
	for _, m := range missing {
		inconclusive = append(inconclusive, "vacuous: "+m)
	}

	// verdict
	exit := 0
	var lines []string
	nviol := 0
	knownPrinted := map[string]bool{}
	for _, v := range confirmed {
		if len(v.Knowns) > 0 {
			k := v.Knowns[0]
			if !knownPrinted[k] {
				knownPrinted[k] = true
				lines = append(lines, fmt.Sprintf("KNOWN-FINDING: property=%s %s [key=%s witness: %s vector=%s]", id, known[k].Desc, k, v.Case, vecStr(v.Vector)))
			}
			continue
		}
		nviol++
		exit = 1
		lines = append(lines, fmt.Sprintf("VIOLATION property=%s replay=%s", id, v.PathDesc))
		lines = append(lines, fmt.Sprintf("  %s in %s: %s (at %s) vector=%s", v.Kind, v.Case, v.Msg, v.Site, vecStr(v.Vector)))
	}
	if len(inconclusive) > 0 && exit == 0 {
		exit = 2
	}
	for _, l := range lines {
		fmt.Println(l)
	}
	inc := uniqStrings(inconclusive, 25)
	for _, l := range inc {
		fmt.Printf("INCONCLUSIVE %s: %s\n", id, l)
	}

	var fnames []string
	for f := range funcs {
		fnames = append(fnames, f)
	}
	sort.Strings(fnames)
	var knownList []string
	for k := range knownPrinted {
		knownList = append(knownList, k)
	}
	sort.Strings(knownList)
	if len(samples) == 0 {
		samples = append(samples, map[string]any{"note": "no completed path sampled"})
	}
	level := spec.Level
	if level == "" {
		level = "model_checking"
	}
	ev := map[string]any{
		"property_id": id,
		"tier":        o.tier,
		"seed":        o.seed,
		"level":       level,
		"wall_s":      round2(wall.Seconds()),
		"violations":  nviol,
		"assumptions": spec.Assumptions,
		"coverage": map[string]any{
			"states":                                 maxInt(paths, 0),
			"transitions":                            branchPts,
			"traces_validated_against_impl":          nativeOK,
			"samples":                                samples,
			"technique":                              "symbolic execution of go/ssa built from /repo's working tree; bit-vector SMT queries (z3 pipe, fall-backs cvc5 --solve-bv-as-int=sum, z3 5.1); every model replayed natively",
			"units":                                  unitInfo,
			"cases":                                  nCases,
			"paths":                                  paths,
			"branch_points_decided":                  branchPts,
			"forks":                                  forks,
			"instructions_interpreted":               steps,
			"functions_encoded":                      fnames,
			"functions_encoded_count":                len(fnames),
			"merged_summaries":                       summaries,
			"models_and_stubs_hit":                   models,
			"bounds":                                 spec.Bounds,
			"queries":                                map[string]any{"total": queries, "sat": sat, "unsat": unsat, "unknown": unknown, "model_cache_hits": cacheHits, "fallback_solver_answers": fallback, "cross_checked_unsat": crossChecked, "max_query_s": round2(maxQuery.Seconds())},
			"solver_time_s":                          round2(solverTime.Seconds()),
			"assertion_queries":                      assertQ,
			"assertions_discharged_unsat":            asserts,
			"assertions_true_on_fully_decided_paths": assertsConc,
			"cover_points":                           map[string]int{"reached": coversReached, "total": coversTotal},
			"assert_sites":                           map[string]int{"reached": assertSitesReached, "total": assertSitesTotal},
			"inconclusive":                           inc,
			"known_findings_reported":                knownList,
			"init_notes":                             uniqStrings(initNotes, 10),
			"out_of_claim":                           spec.OutOfClaim,
			"exit_status":                            exit,
		},
	}
	os.MkdirAll(filepath.Join(outDir, "evidence"), 0o755)
	b, _ := json.MarshalIndent(ev, "", " ")
	os.WriteFile(filepath.Join(outDir, "evidence", id+".json"), b, 0o644)
	fmt.Printf("SUMMARY %s tier=%s exit=%d cases=%d paths=%d branch_points=%d queries=%d (sat %d unsat %d unknown %d) assertions_unsat=%d/%d (+%d path-concrete) native_validated=%d covers=%d/%d assert_sites=%d/%d funcs=%d solver=%.1fs wall=%.1fs\n",
		id, o.tier, exit, nCases, paths, branchPts, queries, sat, unsat, unknown, asserts, assertQ, assertsConc, nativeOK, coversReached, coversTotal, assertSitesReached, assertSitesTotal, len(fnames), solverTime.Seconds(), wall.Seconds())
	_ = strings.Join
	return exit
}

func round2(f float64) float64 { return float64(int64(f*100+0.5)) / 100 }

func maxInt(a, b int) int {
	if a > b {
		return a
	}
	return b
}
