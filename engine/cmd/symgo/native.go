package main

import (
	"bufio"
	"bytes"
	"fmt"
	"os"
	"os/exec"
	"path/filepath"
	"sort"
	"strconv"
	"strings"
	"time"
)

type nativeResult struct {
	status string
	covers []string
	knowns []string
	detail string
	used   int
}

func parseNative(out []byte) map[string]nativeResult {
	res := map[string]nativeResult{}
	sc := bufio.NewScanner(bytes.NewReader(out))
	sc.Buffer(make([]byte, 1<<20), 1<<26)
	for sc.Scan() {
		line := sc.Text()
		if !strings.HasPrefix(line, "ZZRESULT ") {
			continue
		}
		rest := line[len("ZZRESULT "):]
		sp := strings.IndexByte(rest, ' ')
		if sp < 0 {
			continue
		}
		idx := rest[:sp]
		rest = rest[sp+1:]
		nr := nativeResult{}
		di := strings.Index(rest, " detail=")
		if di >= 0 {
			d, err := strconv.Unquote(rest[di+len(" detail="):])
			if err == nil {
				nr.detail = d
			} else {
				nr.detail = rest[di+len(" detail="):]
			}
			rest = rest[:di]
		}
		for _, f := range strings.Fields(rest) {
			switch {
			case strings.HasPrefix(f, "status="):
				nr.status = f[len("status="):]
			case strings.HasPrefix(f, "covers="):
				if v := f[len("covers="):]; v != "" {
					nr.covers = strings.Split(v, ",")
				}
			case strings.HasPrefix(f, "knowns="):
				if v := f[len("knowns="):]; v != "" {
					nr.knowns = strings.Split(v, ",")
				}
			case strings.HasPrefix(f, "used="):
				nr.used, _ = strconv.Atoi(f[len("used="):])
			}
		}
		res[idx] = nr
	}
	return res
}

func intsStr(a []int) string {
	if len(a) == 0 {
		return "-"
	}
	parts := make([]string, len(a))
	for i, x := range a {
		parts[i] = strconv.Itoa(x)
	}
	return strings.Join(parts, ",")
}

func runNativeBatch(bin, dir, batchFile string, timeout time.Duration) ([]byte, error) {
	cmd := exec.Command(bin, "-test.run", "^TestZZReplay$", "-test.v", "-test.timeout", "600s")
	cmd.Dir = dir
	cmd.Env = append(os.Environ(), "ZZ_BATCH="+batchFile, "TZ=UTC")
	var buf bytes.Buffer
	cmd.Stdout = &buf
	cmd.Stderr = &buf
	if err := cmd.Start(); err != nil {
		return nil, err
	}
	done := make(chan error, 1)
	go func() { done <- cmd.Wait() }()
	select {
	case err := <-done:
		return buf.Bytes(), err
	case <-time.After(timeout):
		cmd.Process.Kill()
		<-done
		return buf.Bytes(), fmt.Errorf("native replay timed out")
	}
}

func sameSet(a, b []string) bool {
	ma := map[string]bool{}
	for _, x := range a {
		ma[x] = true
	}
	mb := map[string]bool{}
	for _, x := range b {
		mb[x] = true
	}
	if len(ma) != len(mb) {
		return false
	}
	for k := range ma {
		if !mb[k] {
			return false
		}
	}
	return true
}

func nativeReplay(res *unitResult, scratch, bin string, info map[string]jobInfo) {
	dir := filepath.Join(repoDir, res.unit.Dir)
	if _, err := os.Stat(dir); err != nil {
		dir = repoDir
	}
	// 1. witnesses of completed paths, one batch
	var sb strings.Builder
	type wref struct {
		w Witness
	}
	wmap := map[string]Witness{}
	n := 0
	for _, c := range res.cases {
		ji := info[c.Name]
		for _, w := range c.Stats.Witnesses {
			idx := fmt.Sprintf("w%d", n)
			n++
			wmap[idx] = w
			fmt.Fprintf(&sb, "%s %s %s %s\n", idx, ji.entry, intsStr(ji.args), vecStr(w.Vector))
		}
	}
	if n > 0 {
		bf := filepath.Join(scratch, "batch_"+res.unit.Name+".txt")
		os.WriteFile(bf, []byte(sb.String()), 0o644)
		out, err := runNativeBatch(bin, dir, bf, 300*time.Second)
		got := parseNative(out)
		if err != nil && len(got) < n {
			res.nativeBad = append(res.nativeBad, fmt.Sprintf("native witness batch ended early (%v): %d of %d results; tail: %s", err, len(got), n, tail(out, 400)))
		}
		var keys []string
		for k := range wmap {
			keys = append(keys, k)
		}
		sort.Strings(keys)
		for _, k := range keys {
			w := wmap[k]
			g, ok := got[k]
			if !ok {
				continue
			}
			if g.status == "ok" && sameSet(g.covers, w.Covers) {
				res.nativeOK++
			} else {
				res.nativeBad = append(res.nativeBad, fmt.Sprintf("witness %s of %s: engine says ok covers=%v, native status=%s covers=%v detail=%q vector=%s",
					k, w.Case, w.Covers, g.status, g.covers, g.detail, vecStr(w.Vector)))
			}
		}
	}
	// 2. violations, one process each
	vn := 0
	for _, c := range res.cases {
		ji := info[c.Name]
		for _, v := range c.Violations {
			idx := fmt.Sprintf("v%d", vn)
			vn++
			bf := filepath.Join(scratch, fmt.Sprintf("viol_%s_%s.txt", res.unit.Name, idx))
			line := fmt.Sprintf("%s %s %s %s\n", idx, ji.entry, intsStr(ji.args), vecStr(v.Vector))
			os.WriteFile(bf, []byte(line), 0o644)
			limit := 120 * time.Second
			if v.Kind == "hang" {
				limit = 40 * time.Second
			}
			out, err := runNativeBatch(bin, dir, bf, limit)
			got := parseNative(out)
			g, ok := got[idx]
			v.PathDesc = line
			reproduced := false
			switch {
			case v.Kind == "hang":
				// reproduced only when the native build does not finish on this input within the limit either
				if !ok && err != nil && strings.Contains(err.Error(), "timed out") {
					reproduced = true
					v.Msg += fmt.Sprintf(" [native: no result within %v on the same input]", limit)
				} else if !ok && err != nil && (strings.Contains(string(out), "stack overflow") || strings.Contains(string(out), "goroutine stack exceeds")) {
					reproduced = true
					v.Msg += " [native: the process died of stack exhaustion on the same input]"
				}
			case !ok:
				// the process died (fatal error, os.Exit, timeout): for a panic-type violation that is a reproduction
				if err != nil && v.Kind == "panic" {
					reproduced = true
					v.Msg += " [native process crashed: " + tail(out, 200) + "]"
				}
			case v.Kind == "assert" && g.status == "assert" && g.detail == v.Msg:
				reproduced = true
			case v.Kind == "assert" && g.status == "panic":
				// the native run panicked before reaching the assertion: still a real failure
				reproduced = true
				v.Msg += " [native: panic " + g.detail + "]"
			case v.Kind == "panic" && g.status == "panic":
				reproduced = true
				v.Msg += " [native: " + g.detail + "]"
			}
			if reproduced && len(v.Knowns) > 0 && ok {
				// the witness must lie inside the known region natively as well
				in := false
				for _, k := range g.knowns {
					if k == v.Knowns[0] {
						in = true
					}
				}
				if !in {
					v.Knowns = nil // outside the region natively: report as unlisted
				}
			}
			if reproduced {
				res.confirmed = append(res.confirmed, v)
			} else {
				st := "no result"
				if ok {
					st = g.status + " " + g.detail
				}
				v.Msg += " [NOT reproduced natively: " + st + "]"
				res.unconf = append(res.unconf, v)
			}
		}
	}
}

func tail(b []byte, n int) string {
	if len(b) > n {
		b = b[len(b)-n:]
	}
	return strings.ReplaceAll(string(b), "\n", " | ")
}

var replayCounter = map[string]int{}

func saveReplay(id string, u UnitSpec, v *Violation, ovPaths map[string]string, scratch string) {
	replayCounter[id]++
	dir := filepath.Join(outDir, "replays", id, fmt.Sprintf("%03d", replayCounter[id]))
	os.RemoveAll(dir)
	os.MkdirAll(dir, 0o755)
	// copy overlay sources
	newOv := map[string]string{}
	i := 0
	for virt, real := range ovPaths {
		b, err := os.ReadFile(real)
		if err != nil {
			continue
		}
		name := fmt.Sprintf("f%02d_%s", i, filepath.Base(virt))
		i++
		os.WriteFile(filepath.Join(dir, name), b, 0o644)
		newOv[virt] = filepath.Join(dir, name)
	}
	writeOverlayJSON(filepath.Join(dir, "overlay.json"), newOv)
	os.WriteFile(filepath.Join(dir, "batch.txt"), []byte(v.PathDesc), 0o644)
	desc := fmt.Sprintf("property: %s\nunit: %s\ncase: %s\nkind: %s\nmessage: %s\nsite: %s\nknown-keys: %v\ninput vector: %s\n",
		id, u.Name, v.Case, v.Kind, v.Msg, v.Site, v.Knowns, vecStr(v.Vector))
	os.WriteFile(filepath.Join(dir, "README.txt"), []byte(desc), 0o644)
	sh := fmt.Sprintf("#!/bin/sh\n# replays the solver's counterexample against the native build of /repo\nexport GOFLAGS=-mod=mod GOPROXY=off GOSUMDB=off GOTOOLCHAIN=local\ncd /repo && ZZ_BATCH=%s/batch.txt go test -vet=off -count=1 -v -overlay %s/overlay.json -run '^TestZZReplay$' %s\n", dir, dir, u.Pkg)
	os.WriteFile(filepath.Join(dir, "replay.sh"), []byte(sh), 0o755)
	v.PathDesc = dir
}
