package main

import (
	"fmt"
	"go/constant"
	"go/token"
	"go/types"
	"math"
	"math/rand"
	"os"
	"strings"
	"sync"
	"time"

	"golang.org/x/tools/go/ssa"
)

type Config struct {
	listedKnown    map[string]bool
	assertTimeoutS int
	crossCheck     bool
	maxViolPerSite int
	maxSteps       int64
	maxPaths       int
	maxDepth       int
	pipeTimeoutMS  int
	crossSolver    string
	prefer         string
	stubs          map[string]*ssa.Function
	stubMissing    []string
	tier           string
}

type Interp struct {
	prog   *ssa.Program
	tb     *TB
	solver *Solver
	cfg    *Config

	globals  map[*ssa.Global]*Cell
	inited   map[*ssa.Package]bool
	initing  map[*ssa.Package]bool
	inInit   bool
	poisoned map[*ssa.Global]string
	epoch    uint32
	undo     []undoRec
	consts   map[*ssa.Const]Value
	summ     map[*ssa.Function]*summaryInfo

	// per path
	pc                  []*Term
	prefix              []Decision
	dpos                int
	trace               []Decision
	models              []*Model
	pending             []pendingPath
	inputs              []*Term
	steps               int64
	depth               int
	knowns              []knownCond
	pathCovers          []string
	pathMaybeInfeasible bool
	curFn               *ssa.Function
	curInstr            ssa.Instruction
	deferOwner          *Frame

	// per case
	caseName     string
	cs           *CaseStats
	violations   []Violation
	violSeen     map[string]int
	cacheHits    int
	unknownFeas  int
	crossChecked int
	crossInt     int // of those: hard-arithmetic queries cross-checked through the integer translation
	cross        *Solver
	crossCache   map[string]Result
	uniq         map[string]Value // unique.Make interning
	initNotes    []string
	qcache       map[string]cacheEntry
	qcacheHits   int
	focus        []*Term
	errWhere     string
	errStack     []string
	pinned       []uint64
	deadline     time.Time
	inPath       bool
	intDiffOK    int
	badModels    int
	ctxBounds    map[*Term]urange
	ctxMemo      map[int]urange
	rng          *rand.Rand
	observed     []string
	deferMemo    map[*ssa.Function]bool
	rtErrT       types.Type
}

var debugStack = os.Getenv("SYMGO_STACK") != ""

type Frame struct {
	fn       *ssa.Function
	env      map[ssa.Value]Value
	free     []Value
	defers   []deferRec
	panic    *goPanic
	owner    *Frame // frame whose deferred call this is (for recover)
	prev     *ssa.BasicBlock
	tolerant bool
}

type deferRec struct {
	fn     Value
	args   []Value
	invoke *types.Func
}

type goPanic struct {
	val  Value // IfaceV
	site string
	rt   string // runtime error text (if a runtime panic)
}

func NewInterp(prog *ssa.Program, cfg *Config) *Interp {
	in := &Interp{prog: prog, tb: NewTB(), cfg: cfg,
		globals: map[*ssa.Global]*Cell{}, inited: map[*ssa.Package]bool{}, initing: map[*ssa.Package]bool{},
		poisoned: map[*ssa.Global]string{}, consts: map[*ssa.Const]Value{}, summ: map[*ssa.Function]*summaryInfo{},
		uniq: map[string]Value{}, qcache: map[string]cacheEntry{}, deferMemo: map[*ssa.Function]bool{}}
	in.solver = NewSolver(cfg.pipeTimeoutMS)
	in.rng = rand.New(rand.NewSource(12345))
	in.epoch = 1
	return in
}

// ---------------------------------------------------------------- globals / init

func (in *Interp) globalCell(g *ssa.Global) *Cell {
	if c, ok := in.globals[g]; ok && (in.inited[g.Pkg] || in.initing[g.Pkg]) {
		return c
	}
	in.ensureInit(g.Pkg)
	c, ok := in.globals[g]
	if !ok {
		c = in.allocGlobal(g)
	}
	return c
}

func (in *Interp) allocGlobal(g *ssa.Global) *Cell {
	save := in.epoch
	in.epoch = 0
	c := in.newCell(g.Type().(*types.Pointer).Elem())
	in.epoch = save
	in.globals[g] = c
	return c
}

// ensureInit runs the package initialiser (concretely) the first time one of
// the package's globals is touched. Calls to other packages' init functions
// are skipped: those run lazily on their own first access.
func (in *Interp) ensureInit(pkg *ssa.Package) {
	if pkg == nil || in.inited[pkg] || in.initing[pkg] {
		return
	}
	in.initing[pkg] = true
	for _, m := range pkg.Members {
		if g, ok := m.(*ssa.Global); ok {
			if _, ok := in.globals[g]; !ok {
				in.allocGlobal(g)
			}
		}
	}
	initFn := pkg.Func("init")
	if initFn != nil && len(initFn.Blocks) > 0 {
		// save path state
		saveIn, saveEpoch, saveFn, saveInstr, saveDepth := in.inInit, in.epoch, in.curFn, in.curInstr, in.depth
		in.inInit = true
		in.epoch = 0
		in.depth = 0
		func() {
			defer func() {
				if r := recover(); r != nil {
					if _, ok := r.(pathEnd); ok {
						panic(r)
					}
					why := fmt.Sprintf("package initialiser of %s aborted: %v", pkg.Pkg.Path(), r)
					if gp, ok := r.(*goPanic); ok {
						why = fmt.Sprintf("package initialiser of %s panicked: %s", pkg.Pkg.Path(), in.panicText(gp))
					}
					in.initNotes = append(in.initNotes, why)
					for _, m := range pkg.Members {
						if g, ok := m.(*ssa.Global); ok {
							in.poisonCell(in.rawGlobal(g), why)
						}
					}
				}
			}()
			in.runInit(initFn)
		}()
		in.inInit, in.epoch, in.curFn, in.curInstr, in.depth = saveIn, saveEpoch, saveFn, saveInstr, saveDepth
	}
	in.inited[pkg] = true
	delete(in.initing, pkg)
}

// runInit interprets a package init function tolerantly: an instruction that
// fails as unsupported poisons the globals it would have stored to.
func (in *Interp) runInit(fn *ssa.Function) {
	fr := &Frame{fn: fn, env: map[ssa.Value]Value{}, tolerant: true}
	in.call0(fr)
}

// ---------------------------------------------------------------- function calls

func (in *Interp) callFunction(fn *ssa.Function, args []Value, free []Value) Value {
	if in.cfg.stubs != nil {
		if st, ok := in.cfg.stubs[fnKey(fn)]; ok && st != fn {
			in.cs.ModelsHit["stub:"+fnKey(fn)]++
			return in.callFunction(st, args, nil)
		}
	}
	if m := in.lookupModel(fn); m != nil {
		in.cs.ModelsHit[fnKey(fn)]++
		return m(in, fn, args)
	}
	if len(fn.Blocks) == 0 {
		if fn.Synthetic != "" && fn.Origin() == nil {
			// try to build (wrappers/thunks are built on demand)
		}
		panic(unsupported("external function " + fn.String()))
	}
	if in.cfg != nil && in.summarizable(fn) && anySymbolic(args) {
		if v, ok := in.applySummary(fn, args); ok {
			return v
		}
	}
	fr := &Frame{fn: fn, env: make(map[ssa.Value]Value, 16), free: free}
	for i, p := range fn.Params {
		fr.env[p] = args[i]
	}
	fr.owner = in.deferOwner
	in.deferOwner = nil
	return in.call0(fr)
}

func (in *Interp) call0(fr *Frame) (ret Value) {
	fn := fr.fn
	in.depth++
	if in.depth > in.cfg.maxDepth {
		panic(budgetErr{"call depth"})
	}
	saveFn, saveInstr := in.curFn, in.curInstr
	in.curFn = fn
	defer func() {
		in.depth--
		r := recover()
		if r == nil {
			in.curFn, in.curInstr = saveFn, saveInstr
			return
		}
		gp, isGo := r.(*goPanic)
		if !isGo {
			if in.errWhere == "" {
				in.errWhere = in.where()
			}
			if debugStack && len(in.errStack) < 40 {
				in.errStack = append(in.errStack, fn.String())
			}
			in.curFn, in.curInstr = saveFn, saveInstr
			panic(r)
		}
		if fn.Recover == nil && !in.hasDefer(fn) {
			in.curFn, in.curInstr = saveFn, saveInstr
			panic(r)
		}
		in.curFn = fn
		fr.panic = gp
		in.depth++
		func() {
			defer func() { in.depth-- }()
			in.runDefers(fr)
			if fr.panic != nil {
				in.curFn, in.curInstr = saveFn, saveInstr
				panic(fr.panic)
			}
			if fn.Recover != nil {
				ret = in.runBlocks(fr, fn.Recover)
			} else {
				ret = in.zeroResults(fn)
			}
		}()
		in.curFn, in.curInstr = saveFn, saveInstr
	}()
	return in.runBlocks(fr, fn.Blocks[0])
}

func (in *Interp) hasDefer(fn *ssa.Function) bool {
	if v, ok := in.deferMemo[fn]; ok {
		return v
	}
	v := hasDefer(fn)
	in.deferMemo[fn] = v
	return v
}

var hasDeferCache = map[*ssa.Function]bool{}

func hasDefer(fn *ssa.Function) bool {
	// note: per-process cache guarded by the caller being single-threaded per Interp;
	// computing it repeatedly is cheap enough to skip caching across goroutines.
	for _, b := range fn.Blocks {
		for _, i := range b.Instrs {
			if _, ok := i.(*ssa.Defer); ok {
				return true
			}
		}
	}
	return false
}

func (in *Interp) zeroResults(fn *ssa.Function) Value {
	res := fn.Signature.Results()
	switch res.Len() {
	case 0:
		return nil
	case 1:
		return in.zero(res.At(0).Type())
	}
	return in.zero(res)
}

func (in *Interp) runDefers(fr *Frame) {
	for len(fr.defers) > 0 {
		d := fr.defers[len(fr.defers)-1]
		fr.defers = fr.defers[:len(fr.defers)-1]
		in.deferOwner = fr
		in.callValue(d.fn, d.args, d.invoke)
		in.deferOwner = nil
	}
}

func (in *Interp) get(fr *Frame, v ssa.Value) Value {
	switch x := v.(type) {
	case *ssa.Const:
		return in.constVal(x)
	case *ssa.Global:
		return PtrV{c: in.globalCell(x)}
	case *ssa.Function:
		return x
	case *ssa.Builtin:
		return x
	case *ssa.FreeVar:
		for i, fv := range fr.fn.FreeVars {
			if fv == x {
				return fr.free[i]
			}
		}
		panic("free var not found")
	}
	r, ok := fr.env[v]
	if !ok {
		panic(fmt.Sprintf("unset SSA value %s = %s in %s", v.Name(), v, fr.fn))
	}
	return r
}

func (in *Interp) constVal(c *ssa.Const) Value {
	if v, ok := in.consts[c]; ok {
		return v
	}
	v := in.mkConst(c)
	in.consts[c] = v
	return v
}

func (in *Interp) mkConst(c *ssa.Const) Value {
	t := c.Type()
	if c.Value == nil {
		return in.zero(t)
	}
	switch u := t.Underlying().(type) {
	case *types.Basic:
		switch {
		case u.Info()&types.IsBoolean != 0:
			return in.tb.Bool(constant.BoolVal(c.Value))
		case u.Info()&types.IsInteger != 0:
			w := widthOf(u)
			if u.Info()&types.IsUnsigned != 0 {
				return in.tb.Const(w, c.Uint64())
			}
			return in.tb.Const(w, uint64(c.Int64()))
		case u.Info()&types.IsFloat != 0:
			f := c.Float64()
			if u.Kind() == types.Float32 {
				f = float64(float32(f))
			}
			return FloatV(f)
		case u.Info()&types.IsString != 0:
			return in.strConst(constant.StringVal(c.Value))
		case u.Info()&types.IsComplex != 0:
			return ComplexV(c.Complex128())
		}
	case *types.Interface, *types.TypeParam:
		// constant converted to interface? not produced by go/ssa
	}
	panic(unsupported("constant of type " + t.String()))
}

func (in *Interp) rtPanic(msg string) *goPanic {
	return &goPanic{rt: msg, site: in.where(), val: IfaceV{t: in.runtimeErrType(), v: in.strConst("runtime error: " + msg)}}
}

func (in *Interp) runtimeErrType() types.Type {
	if in.rtErrT != nil {
		return in.rtErrT
	}
	if p := in.prog.ImportedPackage("runtime"); p != nil {
		if m := p.Type("plainError"); m != nil {
			in.rtErrT = m.Type()
			return in.rtErrT
		}
	}
	in.rtErrT = types.Typ[types.String]
	return in.rtErrT
}

func (in *Interp) panicText(p *goPanic) string {
	if p.rt != "" {
		return "runtime error: " + p.rt
	}
	if iv, ok := p.val.(IfaceV); ok && iv.t != nil {
		if s, ok := iv.v.(StrV); ok {
			if cs, ok := s.Conc(); ok {
				return cs
			}
		}
		return fmt.Sprintf("value of type %s: %s", iv.t, describe(iv.v))
	}
	return describe(p.val)
}

func (in *Interp) runBlocks(fr *Frame, start *ssa.BasicBlock) Value {
	b := start
	for {
		// phis first, simultaneously
		nphi := 0
		for _, instr := range b.Instrs {
			if _, ok := instr.(*ssa.Phi); ok {
				nphi++
			} else {
				break
			}
		}
		if nphi > 0 {
			idx := -1
			for i, p := range b.Preds {
				if p == fr.prev {
					idx = i
					break
				}
			}
			if idx < 0 {
				panic("phi: predecessor not found")
			}
			vals := make([]Value, nphi)
			for i := 0; i < nphi; i++ {
				vals[i] = in.get(fr, b.Instrs[i].(*ssa.Phi).Edges[idx])
			}
			for i := 0; i < nphi; i++ {
				fr.env[b.Instrs[i].(*ssa.Phi)] = vals[i]
			}
		}
		var next *ssa.BasicBlock
		for _, instr := range b.Instrs[nphi:] {
			in.steps++
			if in.steps > in.cfg.maxSteps {
				panic(budgetErr{"instruction budget"})
			}
			in.curInstr = instr
			if fr.tolerant {
				switch instr.(type) {
				case *ssa.If, *ssa.Jump, *ssa.Return:
				default:
					in.tolerantStep(fr, instr)
					continue
				}
			}
			switch x := instr.(type) {
			case *ssa.If:
				c := in.get(fr, x.Cond).(*Term)
				if !c.IsConst() && !fr.tolerant {
					// collapse pure or-/and-chains (switch with several values per
					// case, a && b && c) into one decision
					if mc, from, tgt, other, ok := in.mergeChain(fr, b, c); ok {
						fr.prev = from
						if in.branch(mc) {
							next = tgt
						} else {
							next = other
						}
						b = nil // fr.prev already set
						break
					}
				}
				if in.branch(c) {
					next = b.Succs[0]
				} else {
					next = b.Succs[1]
				}
			case *ssa.Jump:
				next = b.Succs[0]
			case *ssa.Return:
				switch len(x.Results) {
				case 0:
					return nil
				case 1:
					return in.get(fr, x.Results[0])
				}
				tv := make(TupleV, len(x.Results))
				for i, r := range x.Results {
					tv[i] = in.get(fr, r)
				}
				return tv
			default:
				in.execSimple(fr, instr)
			}
		}
		if next == nil {
			panic("block without terminator")
		}
		if b != nil {
			fr.prev = b
		}
		b = next
	}
}

// mergeChain: starting at block b whose terminator is `if c goto S0 else S1`
// with symbolic c, follows successor blocks that (a) have b as their only
// predecessor, (b) contain only pure scalar computations and (c) end in an If
// sharing one target with the chain so far. Returns the merged condition for
// "go to the shared target", the last chain block (a predecessor of both
// outcomes), the shared target and the other outcome.
func (in *Interp) mergeChain(fr *Frame, b *ssa.BasicBlock, c *Term) (*Term, *ssa.BasicBlock, *ssa.BasicBlock, *ssa.BasicBlock, bool) {
	type attempt struct {
		tgtIdx int // index of the shared target in Succs (0: or-chain, 1: and-chain)
	}
	for _, a := range []attempt{{0}, {1}} {
		tgt := b.Succs[a.tgtIdx]
		cont := b.Succs[1-a.tgtIdx]
		cur := b
		// condition for reaching tgt
		cond := c
		if a.tgtIdx == 1 {
			cond = in.tb.Not(c)
		}
		merged := 0
		for merged < 64 {
			if len(cont.Preds) != 1 || cont == tgt || !phisAgree(tgt, cur, cont) {
				break
			}
			nif, ok := pureBlockIf(cont)
			if !ok || nif.Block().Succs[a.tgtIdx] != tgt {
				break
			}
			// evaluate the pure instructions of cont
			for _, instr := range cont.Instrs[:len(cont.Instrs)-1] {
				if v, ok := instr.(ssa.Value); ok {
					fr.env[v] = in.evalValue(fr, v)
				}
			}
			nc, ok := in.get(fr, nif.Cond).(*Term)
			if !ok {
				break
			}
			if a.tgtIdx == 1 {
				nc = in.tb.Not(nc)
			}
			cond = in.tb.Or(cond, nc)
			cur = cont
			cont = cont.Succs[1-a.tgtIdx]
			merged++
		}
		if merged > 0 {
			return cond, cur, tgt, cont, true
		}
	}
	return nil, nil, nil, nil, false
}

// phisAgree: every phi of tgt takes the same value along the edges from p1 and p2.
func phisAgree(tgt, p1, p2 *ssa.BasicBlock) bool {
	i1, i2 := -1, -1
	for i, p := range tgt.Preds {
		if p == p1 {
			i1 = i
		}
		if p == p2 {
			i2 = i
		}
	}
	if i1 < 0 || i2 < 0 {
		return false
	}
	for _, instr := range tgt.Instrs {
		phi, ok := instr.(*ssa.Phi)
		if !ok {
			break
		}
		e1, e2 := phi.Edges[i1], phi.Edges[i2]
		if e1 == e2 {
			continue
		}
		c1, ok1 := e1.(*ssa.Const)
		c2, ok2 := e2.(*ssa.Const)
		if ok1 && ok2 && c1.Value != nil && c2.Value != nil && types.Identical(c1.Type(), c2.Type()) && c1.Value.ExactString() == c2.Value.ExactString() {
			continue
		}
		return false
	}
	return true
}

var pureBlockMemo sync.Map

// pureBlockIf: the block consists of side-effect-free, panic-free scalar
// computations followed by an If.
func pureBlockIf(b *ssa.BasicBlock) (*ssa.If, bool) {
	if v, ok := pureBlockMemo.Load(b); ok {
		r := v.(*ssa.If)
		return r, r != nil
	}
	res := func() *ssa.If {
		n := len(b.Instrs)
		if n == 0 {
			return nil
		}
		nif, ok := b.Instrs[n-1].(*ssa.If)
		if !ok {
			return nil
		}
		for _, instr := range b.Instrs[:n-1] {
			switch x := instr.(type) {
			case *ssa.BinOp:
				switch x.Op {
				case token.QUO, token.REM, token.SHL, token.SHR:
					return nil
				}
				if !scalarType(x.X.Type()) {
					return nil
				}
			case *ssa.UnOp:
				if x.Op != token.NOT && x.Op != token.SUB && x.Op != token.XOR {
					return nil
				}
			case *ssa.Convert:
				if !scalarType(x.Type()) || !scalarType(x.X.Type()) {
					return nil
				}
			case *ssa.ChangeType:
				if !scalarType(x.Type()) {
					return nil
				}
			case *ssa.DebugRef:
			default:
				return nil
			}
		}
		return nif
	}()
	pureBlockMemo.Store(b, res)
	return res, res != nil
}

// execSimple executes a non-control-flow instruction.
func (in *Interp) execSimple(fr *Frame, instr ssa.Instruction) {
	switch x := instr.(type) {
	case *ssa.Panic:
		v := in.get(fr, x.X)
		panic(&goPanic{val: v, site: in.where()})
	case *ssa.RunDefers:
		in.runDefers(fr)
	case *ssa.Defer:
		d := deferRec{}
		d.fn, d.args, d.invoke = in.prepareCall(fr, &x.Call)
		fr.defers = append(fr.defers, d)
	case *ssa.Go:
		panic(unsupported("go statement"))
	case *ssa.Send:
		ch := in.get(fr, x.Chan).(*ChanObj)
		if ch == nil || len(ch.buf) >= ch.cap {
			panic(unsupported("blocking channel send"))
		}
		ch.buf = append(ch.buf, in.get(fr, x.X))
	case *ssa.Store:
		p := in.concPtr(in.get(fr, x.Addr).(PtrV))
		if p.c == nil {
			panic(in.rtPanic("invalid memory address or nil pointer dereference"))
		}
		in.store(p.c, in.get(fr, x.Val))
	case *ssa.MapUpdate:
		in.mapUpdate(in.get(fr, x.Map), in.get(fr, x.Key), in.get(fr, x.Value))
	case *ssa.DebugRef:
	case ssa.Value:
		fr.env[x] = in.evalValue(fr, x)
	default:
		panic(unsupported(fmt.Sprintf("instruction %T", instr)))
	}
}

type poisonV struct{ why string }

// tolerantStep runs one instruction of a package initialiser; if it cannot be
// executed its results are poisoned (reads of poisoned memory are reported as
// unsupported, never as zero values).
func (in *Interp) tolerantStep(fr *Frame, instr ssa.Instruction) {
	for _, op := range instr.Operands(nil) {
		if *op == nil {
			continue
		}
		if pv, ok := fr.env[*op].(poisonV); ok {
			in.poisonInstr(fr, instr, pv.why)
			return
		}
	}
	defer func() {
		if r := recover(); r != nil {
			why := ""
			switch x := r.(type) {
			case unsupportedErr:
				why = x.what
			case *goPanic:
				why = "panic: " + in.panicText(x)
			case budgetErr:
				why = "budget: " + x.what
			case pathEnd:
				panic(r)
			default:
				why = fmt.Sprint(r)
			}
			in.errWhere = ""
			in.poisonInstr(fr, instr, why)
		}
	}()
	in.execSimple(fr, instr)
}

func (in *Interp) poisonInstr(fr *Frame, instr ssa.Instruction, why string) {
	pkgPath := ""
	if fr.fn.Pkg != nil {
		pkgPath = fr.fn.Pkg.Pkg.Path()
	}
	in.initNotes = append(in.initNotes, fmt.Sprintf("init %s: %s", pkgPath, why))
	if v, ok := instr.(ssa.Value); ok {
		fr.env[v] = poisonV{why}
	}
	switch x := instr.(type) {
	case *ssa.Store:
		in.poisonRoot(fr, x.Addr, why)
	case *ssa.MapUpdate:
		in.poisonRoot(fr, x.Map, why)
	case ssa.CallInstruction:
		for _, a := range x.Common().Args {
			if _, ok := a.Type().Underlying().(*types.Pointer); ok {
				in.poisonRoot(fr, a, why)
			}
		}
		if callee := x.Common().StaticCallee(); callee != nil && callee.Pkg == fr.fn.Pkg {
			seen := map[*ssa.Function]bool{}
			in.poisonWrittenGlobals(callee, why, seen, 0)
		}
	}
}

func (in *Interp) poisonWrittenGlobals(fn *ssa.Function, why string, seen map[*ssa.Function]bool, depth int) {
	if seen[fn] || depth > 4 {
		return
	}
	seen[fn] = true
	for _, b := range fn.Blocks {
		for _, instr := range b.Instrs {
			var addr ssa.Value
			switch x := instr.(type) {
			case *ssa.Store:
				addr = x.Addr
			case *ssa.MapUpdate:
				addr = x.Map
			case ssa.CallInstruction:
				if c := x.Common().StaticCallee(); c != nil && c.Pkg == fn.Pkg {
					in.poisonWrittenGlobals(c, why, seen, depth+1)
				}
			}
			if g := rootGlobal(addr); g != nil {
				in.poisonCell(in.rawGlobal(g), why)
			}
		}
	}
	for _, af := range fn.AnonFuncs {
		in.poisonWrittenGlobals(af, why, seen, depth+1)
	}
}

func rootGlobal(v ssa.Value) *ssa.Global {
	for i := 0; v != nil && i < 32; i++ {
		switch x := v.(type) {
		case *ssa.Global:
			return x
		case *ssa.FieldAddr:
			v = x.X
		case *ssa.IndexAddr:
			v = x.X
		case *ssa.UnOp:
			v = x.X
		case *ssa.Slice:
			v = x.X
		default:
			return nil
		}
	}
	return nil
}

func (in *Interp) rawGlobal(g *ssa.Global) *Cell {
	if c, ok := in.globals[g]; ok {
		return c
	}
	return in.allocGlobal(g)
}

func (in *Interp) poisonRoot(fr *Frame, addr ssa.Value, why string) {
	if g := rootGlobal(addr); g != nil {
		in.poisonCell(in.rawGlobal(g), why)
		return
	}
	// root is a local value (e.g. an Alloc that is stored into a global later)
	v := addr
	for i := 0; i < 32; i++ {
		switch x := v.(type) {
		case *ssa.FieldAddr:
			v = x.X
			continue
		case *ssa.IndexAddr:
			v = x.X
			continue
		case *ssa.Slice:
			v = x.X
			continue
		}
		break
	}
	switch pv := fr.env[v].(type) {
	case PtrV:
		if pv.c != nil {
			in.poisonCell(pv.c, why)
		}
	case *MapObj:
		if pv != nil {
			pv.bad = why
		}
	case SliceV:
		if pv.arr != nil {
			pv.arr.bad = why
			for _, c := range pv.arr.cells {
				if c != nil {
					in.poisonCell(c, why)
				}
			}
		}
	}
}

func (in *Interp) poisonCell(c *Cell, why string) {
	switch c.kind {
	case 0:
		c.bad = why
	case 1:
		for _, s := range c.sub {
			in.poisonCell(s, why)
		}
	default:
		c.arr.bad = why
		for _, e := range c.arr.cells {
			if e != nil {
				in.poisonCell(e, why)
			}
		}
	}
}

func (in *Interp) evalValue(fr *Frame, instr ssa.Value) Value {
	switch x := instr.(type) {
	case *ssa.Alloc:
		return PtrV{c: in.newCell(x.Type().(*types.Pointer).Elem())}
	case *ssa.BinOp:
		return in.binop(x.Op, x.X.Type(), in.get(fr, x.X), in.get(fr, x.Y), x.Y.Type())
	case *ssa.UnOp:
		return in.unop(fr, x)
	case *ssa.Call:
		if fr.tolerant {
			if callee := x.Call.StaticCallee(); callee != nil && callee.Name() == "init" && callee.Pkg != fr.fn.Pkg && callee.Signature.Recv() == nil {
				return nil // other packages are initialised lazily on first access
			}
		}
		if b, ok := x.Call.Value.(*ssa.Builtin); ok && b.Name() == "recover" {
			if fr.owner != nil && fr.owner.panic != nil {
				v := fr.owner.panic.val
				fr.owner.panic = nil
				return v
			}
			return IfaceV{}
		}
		fn, args, invoke := in.prepareCall(fr, &x.Call)
		return in.callValue(fn, args, invoke)
	case *ssa.ChangeInterface:
		return in.get(fr, x.X)
	case *ssa.ChangeType:
		return in.get(fr, x.X)
	case *ssa.Convert:
		return in.convert(in.get(fr, x.X), x.X.Type(), x.Type())
	case *ssa.MultiConvert:
		return in.convert(in.get(fr, x.X), x.X.Type(), x.Type())
	case *ssa.Extract:
		return in.get(fr, x.Tuple).(TupleV)[x.Index]
	case *ssa.Field:
		return in.get(fr, x.X).(*StructV).f[x.Field]
	case *ssa.FieldAddr:
		p := in.concPtr(in.get(fr, x.X).(PtrV))
		if p.c == nil {
			panic(in.rtPanic("invalid memory address or nil pointer dereference"))
		}
		return PtrV{c: p.c.sub[x.Field]}
	case *ssa.Index:
		xv := in.get(fr, x.X)
		idx := in.get(fr, x.Index).(*Term)
		switch a := xv.(type) {
		case *ArrayV:
			if !idx.IsConst() && len(a.e) > 1 && len(a.e) <= 4096 {
				if _, isT := a.e[0].(*Term); isT {
					arr := in.newArr(x.Type(), len(a.e))
					for i, e := range a.e {
						in.elem(arr, i).v = e
					}
					p := in.symIndexAddr(arr, 0, len(a.e), idx, x.Index.Type()).(PtrV)
					return in.symLoad(p.sym)
				}
			}
			i := in.checkIndex(idx, x.Index.Type(), len(a.e))
			return a.e[i]
		case StrV:
			return in.strIndex(a, idx, x.Index.Type())
		}
		panic(unsupported(fmt.Sprintf("Index on %T", xv)))
	case *ssa.IndexAddr:
		xv := in.get(fr, x.X)
		idx := in.get(fr, x.Index).(*Term)
		switch a := xv.(type) {
		case PtrV:
			a = in.concPtr(a)
			if a.c == nil {
				panic(in.rtPanic("invalid memory address or nil pointer dereference"))
			}
			if !idx.IsConst() && scalarType(a.c.arr.et) && a.c.n > 1 && a.c.n <= 4096 {
				return in.symIndexAddr(a.c.arr, a.c.off, a.c.n, idx, x.Index.Type())
			}
			i := in.checkIndex(idx, x.Index.Type(), a.c.n)
			return PtrV{c: in.elem(a.c.arr, a.c.off+i)}
		case SliceV:
			if !idx.IsConst() && a.arr != nil && scalarType(a.arr.et) && a.len > 1 && a.len <= 4096 {
				return in.symIndexAddr(a.arr, a.off, a.len, idx, x.Index.Type())
			}
			i := in.checkIndex(idx, x.Index.Type(), a.len)
			return PtrV{c: in.elem(a.arr, a.off+i)}
		}
		panic(unsupported(fmt.Sprintf("IndexAddr on %T", xv)))
	case *ssa.Lookup:
		xv := in.get(fr, x.X)
		if s, ok := xv.(StrV); ok {
			return in.strIndex(s, in.get(fr, x.Index).(*Term), x.Index.Type())
		}
		m := xv.(*MapObj)
		v, ok := in.mapLookup(m, in.get(fr, x.Index))
		if !ok {
			v = in.zero(x.X.Type().Underlying().(*types.Map).Elem())
		}
		if x.CommaOk {
			return TupleV{v, in.tb.Bool(ok)}
		}
		return v
	case *ssa.MakeClosure:
		c := &ClosureV{fn: x.Fn.(*ssa.Function)}
		for _, b := range x.Bindings {
			c.free = append(c.free, in.get(fr, b))
		}
		return c
	case *ssa.MakeInterface:
		return IfaceV{t: x.X.Type(), v: in.get(fr, x.X)}
	case *ssa.MakeMap:
		mt := x.Type().Underlying().(*types.Map)
		return &MapObj{kt: mt.Key(), vt: mt.Elem(), born: in.epoch}
	case *ssa.MakeChan:
		n := int(in.concretize(in.get(fr, x.Size).(*Term), "chan size"))
		return &ChanObj{cap: n}
	case *ssa.MakeSlice:
		l := int(int64(in.concretize(in.get(fr, x.Len).(*Term), "make len")))
		c := int(int64(in.concretize(in.get(fr, x.Cap).(*Term), "make cap")))
		if l < 0 || c < l {
			panic(in.rtPanic("makeslice: len out of range"))
		}
		if c > 1<<24 {
			panic(budgetErr{"makeslice too large"})
		}
		et := x.Type().Underlying().(*types.Slice).Elem()
		return SliceV{arr: in.newArr(et, c), off: 0, len: l, cap: c}
	case *ssa.Next:
		return in.next(in.get(fr, x.Iter).(*RangeIter), x.IsString)
	case *ssa.Range:
		xv := in.get(fr, x.X)
		if s, ok := xv.(StrV); ok {
			return &RangeIter{str: s}
		}
		m := xv.(*MapObj)
		it := &RangeIter{isMap: true}
		if m != nil {
			it.ents = append([]mapEnt(nil), m.ents...)
		}
		return it
	case *ssa.Slice:
		return in.sliceOp(fr, x)
	case *ssa.SliceToArrayPointer:
		s := in.get(fr, x.X).(SliceV)
		at := x.Type().(*types.Pointer).Elem().Underlying().(*types.Array)
		n := int(at.Len())
		if s.len < n {
			panic(in.rtPanic("cannot convert slice with length to array or pointer to array"))
		}
		if s.arr == nil {
			if n == 0 {
				return PtrV{}
			}
		}
		return PtrV{c: &Cell{kind: 2, arr: s.arr, off: s.off, n: n, t: at, born: s.arr.born}}
	case *ssa.TypeAssert:
		return in.typeAssert(x, in.get(fr, x.X))
	case *ssa.Select:
		return in.selectOp(fr, x)
	case *ssa.Phi:
		panic("phi in body")
	}
	panic(unsupported(fmt.Sprintf("value instruction %T", instr)))
}

func (in *Interp) selectOp(fr *Frame, x *ssa.Select) Value {
	// minimal: a select with ready receive on a closed/non-empty channel or default
	for i, st := range x.States {
		ch, _ := in.get(fr, st.Chan).(*ChanObj)
		if ch == nil {
			continue
		}
		if st.Dir == types.RecvOnly && (len(ch.buf) > 0 || ch.closed) {
			tv := TupleV{in.tb.Const(64, uint64(i)), in.tb.Bool(len(ch.buf) > 0)}
			for j, s2 := range x.States {
				if s2.Dir == types.RecvOnly {
					et := s2.Chan.Type().Underlying().(*types.Chan).Elem()
					if j == i && len(ch.buf) > 0 {
						tv = append(tv, ch.buf[0])
						ch.buf = ch.buf[1:]
					} else {
						tv = append(tv, in.zero(et))
					}
				}
			}
			return tv
		}
	}
	if !x.Blocking {
		tv := TupleV{in.tb.Const(64, ^uint64(0)), in.tb.False}
		for _, s2 := range x.States {
			if s2.Dir == types.RecvOnly {
				tv = append(tv, in.zero(s2.Chan.Type().Underlying().(*types.Chan).Elem()))
			}
		}
		return tv
	}
	panic(unsupported("blocking select"))
}

// checkIndex bounds-checks a (possibly symbolic) index and returns it concretely.
func (in *Interp) checkIndex(idx *Term, it types.Type, n int) int {
	if idx.IsConst() {
		var i int64
		if isSigned(it) {
			i = sext(idx.val, idx.w)
		} else {
			i = int64(idx.val)
			if idx.val > math.MaxInt64 {
				i = -1
			}
		}
		if i < 0 || i >= int64(n) {
			panic(in.rtPanic(fmt.Sprintf("index out of range [%d] with length %d", i, n)))
		}
		return int(i)
	}
	w := idx.w
	var wide *Term
	if isSigned(it) {
		wide = in.tb.SExt(idx, 64)
	} else {
		wide = in.tb.ZExt(idx, 64)
	}
	_ = w
	inb := in.tb.Bin(OpULt, wide, in.tb.Const(64, uint64(n)))
	if !in.branch(inb) {
		panic(in.rtPanic(fmt.Sprintf("index out of range [symbolic] with length %d", n)))
	}
	return int(in.concretize(wide, "index"))
}

// symIndexAddr: bounds check (forking on out-of-range) and a symbolic element pointer.
func (in *Interp) symIndexAddr(arr *ArrObj, off, n int, idx *Term, it types.Type) Value {
	var wide *Term
	if isSigned(it) {
		wide = in.tb.SExt(idx, 64)
	} else {
		wide = in.tb.ZExt(idx, 64)
	}
	inb := in.tb.Bin(OpULt, wide, in.tb.Const(64, uint64(n)))
	if !in.branch(inb) {
		panic(in.rtPanic(fmt.Sprintf("index out of range [symbolic] with length %d", n)))
	}
	return PtrV{sym: &SymRef{arr: arr, off: off, n: n, idx: wide}}
}

// symLoad reads arr[off+idx] as an ite chain, grouping equal values.
func (in *Interp) symLoad(r0 *SymRef) Value {
	in.noteSym()
	r := r0
	if rg := in.rangeCtx(r0.idx); rg.hi < uint64(r0.n) && (rg.lo > 0 || rg.hi < uint64(r0.n-1)) {
		// only the entries the index can reach (sound interval analysis)
		r = &SymRef{arr: r0.arr, off: r0.off + int(rg.lo), n: int(rg.hi-rg.lo) + 1, idx: in.tb.Bin(OpSub, r0.idx, in.tb.Const(64, rg.lo))}
	}
	vals := make([]*Term, r.n)
	count := map[*Term]int{}
	var z *Term
	for i := 0; i < r.n; i++ {
		c := r.arr.cells[r.off+i]
		if (c == nil && r.arr.bad != "") || (c != nil && c.bad != "") {
			panic(unsupported("read of memory whose package initialiser could not be executed"))
		}
		if c == nil {
			if z == nil {
				z = in.zero(r.arr.et).(*Term)
			}
			vals[i] = z
		} else {
			vals[i] = c.v.(*Term)
		}
		count[vals[i]]++
	}
	// verified closed form "three packed decimal digits" (jx's digits table): every reachable entry is checked
	if r.n >= 8 && vals[0].IsConst() && vals[0].w == 32 {
		f := func(i uint64) uint64 {
			v := (((i / 100) + '0') << 16) + ((((i / 10) % 10) + '0') << 8) + i%10 + '0'
			if i < 10 {
				v += 2 << 24
			} else if i < 100 {
				v += 1 << 24
			}
			return v
		}
		match := r.off+r.n <= 1000
		for i := 0; match && i < r.n; i++ {
			if !vals[i].IsConst() || vals[i].val != f(uint64(r.off+i)) {
				match = false
			}
		}
		if match {
			in.cs.Summaries["table:packed-3-digits"]++
			tb := in.tb
			k := func(v uint64) *Term { return tb.Const(32, v) }
			abs := tb.Bin(OpAdd, tb.Extract(r.idx, 31, 0), k(uint64(r.off)))
			d2 := tb.Bin(OpUDiv, abs, k(100))
			d1 := tb.Bin(OpURem, tb.Bin(OpUDiv, abs, k(10)), k(10))
			d0 := tb.Bin(OpURem, abs, k(10))
			// the entry is four byte fields (count of leading zeros, three digit characters): built as a
			// concatenation so that the consumer's byte(v>>16), byte(v>>8), byte(v), v>>24 simplify to the fields
			b8 := func(t *Term) *Term { return tb.Extract(tb.Bin(OpAdd, t, k('0')), 7, 0) }
			k8 := func(v uint64) *Term { return tb.Const(8, v) }
			flag := tb.Ite(tb.Bin(OpULt, abs, k(10)), k8(2), tb.Ite(tb.Bin(OpULt, abs, k(100)), k8(1), k8(0)))
			return tb.Concat(flag, tb.Concat(b8(d2), tb.Concat(b8(d1), b8(d0))))
		}
	}
	// affine segment: table[i] == table[0] + i for every reachable entry (exhaustively checked)
	if r.n >= 2 && vals[0].IsConst() {
		w := vals[0].w
		affine := true
		for i := 1; i < r.n; i++ {
			if !vals[i].IsConst() || vals[i].val != (vals[0].val+uint64(i))&mask(w) {
				affine = false
				break
			}
		}
		if affine {
			in.cs.Summaries["table:affine-segment"]++
			var iw *Term
			if w <= 64 {
				iw = in.tb.Extract(r.idx, w-1, 0)
			}
			return in.tb.Bin(OpAdd, vals[0], iw)
		}
	}
	var def *Term
	best := -1
	for i := 0; i < r.n; i++ {
		if c := count[vals[i]]; c > best {
			best, def = c, vals[i]
		}
	}
	res := def
	for i := r.n - 1; i >= 0; i-- {
		if vals[i] == def {
			continue
		}
		res = in.tb.Ite(in.tb.Eq(r.idx, in.tb.Const(64, uint64(i))), vals[i], res)
	}
	return res
}

// concPtr turns a symbolic element pointer into a concrete one by forking on the index.
func (in *Interp) concPtr(p PtrV) PtrV {
	if p.sym == nil {
		return p
	}
	i := int(in.concretize(p.sym.idx, "symbolic element pointer"))
	return PtrV{c: in.elem(p.sym.arr, p.sym.off+i)}
}

func (in *Interp) strIndex(s StrV, idx *Term, it types.Type) Value {
	if idx.IsConst() {
		i := in.checkIndex(idx, it, len(s.b))
		return s.b[i]
	}
	var wide *Term
	if isSigned(it) {
		wide = in.tb.SExt(idx, 64)
	} else {
		wide = in.tb.ZExt(idx, 64)
	}
	inb := in.tb.Bin(OpULt, wide, in.tb.Const(64, uint64(len(s.b))))
	if !in.branch(inb) {
		panic(in.rtPanic(fmt.Sprintf("index out of range [symbolic] with length %d", len(s.b))))
	}
	if t := in.tableClosedForm(s, wide); t != nil {
		return t
	}
	// ite chain over the (concrete-length) string
	if len(s.b) <= 256 {
		r := s.b[len(s.b)-1]
		for i := len(s.b) - 2; i >= 0; i-- {
			r = in.tb.Ite(in.tb.Eq(wide, in.tb.Const(64, uint64(i))), s.b[i], r)
		}
		return r
	}
	return s.b[in.concretize(wide, "string index")]
}

// tableClosedForm: verified table summaries. For a constant string indexed by
// a symbolic index, candidate arithmetic closed forms are checked against
// EVERY entry of the real table; the first that matches replaces the lookup.
func (in *Interp) tableClosedForm(s StrV, idx *Term) *Term {
	n := len(s.b)
	if n < 8 {
		return nil
	}
	cs, ok := s.Conc()
	if !ok {
		return nil
	}
	tb := in.tb
	// narrow the index: it is known to be < n on this path
	w := 8
	for (1 << uint(w)) < n {
		w += 8
	}
	if w > 16 {
		return nil
	}
	ni := tb.Extract(idx, w-1, 0)
	k := func(v int) *Term { return tb.Const(w, uint64(v)) }
	type cand struct {
		name string
		f    func(i int) byte
		t    func() *Term
	}
	cands := []cand{
		{"affine", func(i int) byte { return cs[0] + byte(i) }, func() *Term {
			return tb.Bin(OpAdd, tb.Const(8, uint64(cs[0])), tb.Extract(ni, 7, 0))
		}},
		{"digit-pairs", func(i int) byte {
			if i%2 == 0 {
				return '0' + byte((i/2)/10)
			}
			return '0' + byte((i/2)%10)
		}, func() *Term {
			half := tb.Bin(OpLShr, ni, k(1))
			hi := tb.Bin(OpUDiv, half, k(10))
			lo := tb.Bin(OpURem, half, k(10))
			odd := tb.Eq(tb.Extract(ni, 0, 0), tb.Const(1, 1))
			return tb.Bin(OpAdd, tb.Const(8, '0'), tb.Extract(tb.Ite(odd, lo, hi), 7, 0))
		}},
		{"hex-lower", func(i int) byte { return "0123456789abcdef"[i%16] }, func() *Term {
			lt := tb.Bin(OpULt, ni, k(10))
			return tb.Extract(tb.Ite(lt, tb.Bin(OpAdd, ni, k('0')), tb.Bin(OpAdd, ni, k('a'-10))), 7, 0)
		}},
		{"hex-upper", func(i int) byte { return "0123456789ABCDEF"[i%16] }, func() *Term {
			lt := tb.Bin(OpULt, ni, k(10))
			return tb.Extract(tb.Ite(lt, tb.Bin(OpAdd, ni, k('0')), tb.Bin(OpAdd, ni, k('A'-10))), 7, 0)
		}},
		{"base36-lower", func(i int) byte { return "0123456789abcdefghijklmnopqrstuvwxyz"[i%36] }, func() *Term {
			lt := tb.Bin(OpULt, ni, k(10))
			return tb.Extract(tb.Ite(lt, tb.Bin(OpAdd, ni, k('0')), tb.Bin(OpAdd, ni, k('a'-10))), 7, 0)
		}},
	}
	for _, c := range cands {
		if (c.name == "hex-lower" || c.name == "hex-upper") && n != 16 {
			continue
		}
		if c.name == "base36-lower" && n != 36 {
			continue
		}
		match := true
		for i := 0; i < n; i++ {
			if c.f(i) != cs[i] {
				match = false
				break
			}
		}
		if match {
			in.cs.Summaries["table:"+c.name]++
			return c.t()
		}
	}
	return nil
}

func (in *Interp) intArg(fr *Frame, v ssa.Value, def int, what string) int {
	if v == nil {
		return def
	}
	t := in.get(fr, v).(*Term)
	c := in.concretize(t, what)
	if isSigned(v.Type()) {
		return int(sext(c, t.w))
	}
	if c > math.MaxInt64 {
		return -1
	}
	return int(c)
}

func (in *Interp) sliceOp(fr *Frame, x *ssa.Slice) Value {
	xv := in.get(fr, x.X)
	switch a := xv.(type) {
	case StrV:
		lo := in.intArg(fr, x.Low, 0, "slice low")
		hi := in.intArg(fr, x.High, len(a.b), "slice high")
		if lo < 0 || hi < lo || hi > len(a.b) {
			panic(in.rtPanic(fmt.Sprintf("slice bounds out of range [%d:%d] with length %d", lo, hi, len(a.b))))
		}
		return StrV{a.b[lo:hi:hi]}
	case SliceV:
		lo := in.intArg(fr, x.Low, 0, "slice low")
		hi := in.intArg(fr, x.High, a.len, "slice high")
		max := in.intArg(fr, x.Max, a.cap, "slice max")
		if lo < 0 || hi < lo || max < hi || max > a.cap {
			panic(in.rtPanic(fmt.Sprintf("slice bounds out of range [%d:%d:%d] with capacity %d", lo, hi, max, a.cap)))
		}
		if a.arr == nil {
			return SliceV{}
		}
		return SliceV{arr: a.arr, off: a.off + lo, len: hi - lo, cap: max - lo}
	case PtrV:
		if a.c == nil {
			panic(in.rtPanic("invalid memory address or nil pointer dereference"))
		}
		n := a.c.n
		lo := in.intArg(fr, x.Low, 0, "slice low")
		hi := in.intArg(fr, x.High, n, "slice high")
		max := in.intArg(fr, x.Max, n, "slice max")
		if lo < 0 || hi < lo || max < hi || max > n {
			panic(in.rtPanic(fmt.Sprintf("slice bounds out of range [%d:%d:%d] with capacity %d", lo, hi, max, n)))
		}
		return SliceV{arr: a.c.arr, off: a.c.off + lo, len: hi - lo, cap: max - lo}
	}
	panic(unsupported(fmt.Sprintf("Slice on %T", xv)))
}

func (in *Interp) unop(fr *Frame, x *ssa.UnOp) Value {
	v := in.get(fr, x.X)
	switch x.Op {
	case token.MUL:
		p := v.(PtrV)
		if p.sym != nil {
			return in.symLoad(p.sym)
		}
		if p.c == nil {
			panic(in.rtPanic("invalid memory address or nil pointer dereference"))
		}
		return in.load(p.c)
	case token.NOT:
		return in.tb.Not(v.(*Term))
	case token.SUB:
		switch a := v.(type) {
		case *Term:
			return in.tb.Neg(a)
		case FloatV:
			return FloatV(-float64(a))
		}
	case token.XOR:
		return in.tb.BVNot(v.(*Term))
	case token.ARROW:
		ch := v.(*ChanObj)
		et := x.X.Type().Underlying().(*types.Chan).Elem()
		if ch != nil && len(ch.buf) > 0 {
			r := ch.buf[0]
			ch.buf = ch.buf[1:]
			if x.CommaOk {
				return TupleV{r, in.tb.True}
			}
			return r
		}
		if ch != nil && ch.closed {
			if x.CommaOk {
				return TupleV{in.zero(et), in.tb.False}
			}
			return in.zero(et)
		}
		panic(unsupported("blocking channel receive"))
	}
	panic(unsupported(fmt.Sprintf("unop %s on %T", x.Op, v)))
}

func (in *Interp) typeAssert(x *ssa.TypeAssert, v Value) Value {
	iv := v.(IfaceV)
	ok := false
	if iv.t != nil {
		if types.IsInterface(x.AssertedType) {
			ok = in.implements(iv.t, x.AssertedType)
		} else {
			ok = types.Identical(iv.t, x.AssertedType)
		}
	}
	var res Value
	if ok {
		if types.IsInterface(x.AssertedType) {
			res = iv
		} else {
			res = iv.v
		}
	} else {
		res = in.zero(x.AssertedType)
	}
	if x.CommaOk {
		return TupleV{res, in.tb.Bool(ok)}
	}
	if !ok {
		from := "nil"
		if iv.t != nil {
			from = iv.t.String()
		}
		panic(in.rtPanic(fmt.Sprintf("interface conversion: interface is %s, not %s", from, x.AssertedType)))
	}
	return res
}

func (in *Interp) implements(t types.Type, iface types.Type) bool {
	it, ok := iface.Underlying().(*types.Interface)
	if !ok {
		return false
	}
	if it.NumMethods() == 0 {
		return true
	}
	return types.Implements(t, it)
}

// ---------------------------------------------------------------- maps

func (in *Interp) keyEq(a, b Value, kt types.Type) *Term {
	return in.equalValues(a, b, kt)
}

func (in *Interp) mapFind(m *MapObj, k Value) int {
	if m == nil {
		return -1
	}
	if m.bad != "" {
		panic(unsupported("use of a map whose package initialiser could not be executed (" + m.bad + ")"))
	}
	for i := range m.ents {
		eq := in.keyEq(m.ents[i].k, k, m.kt)
		if in.branch(eq) {
			return i
		}
	}
	return -1
}

func (in *Interp) mapLookup(m *MapObj, k Value) (Value, bool) {
	i := in.mapFind(m, k)
	if i < 0 {
		return nil, false
	}
	return m.ents[i].v, true
}

func (in *Interp) mapUpdate(mv Value, k, v Value) {
	m := mv.(*MapObj)
	if m == nil {
		panic(&goPanic{rt: "assignment to entry in nil map", site: in.where(), val: IfaceV{t: in.runtimeErrType(), v: in.strConst("assignment to entry in nil map")}})
	}
	i := in.mapFind(m, k)
	in.mapTouch(m)
	if i >= 0 {
		m.ents[i].v = v
		return
	}
	m.ents = append(m.ents, mapEnt{k, v})
}

func (in *Interp) mapDelete(m *MapObj, k Value) {
	if m == nil {
		return
	}
	i := in.mapFind(m, k)
	if i < 0 {
		return
	}
	in.mapTouch(m)
	m.ents = append(append([]mapEnt(nil), m.ents[:i]...), m.ents[i+1:]...)
}

func (in *Interp) next(it *RangeIter, isString bool) Value {
	if it.isMap {
		if it.pos >= len(it.ents) {
			return TupleV{in.tb.False, nil, nil}
		}
		e := it.ents[it.pos]
		it.pos++
		return TupleV{in.tb.True, e.k, e.v}
	}
	if it.pos >= len(it.str.b) {
		return TupleV{in.tb.False, in.tb.Const(64, 0), in.tb.Const(32, 0)}
	}
	start := it.pos
	r, size := in.decodeRune(StrV{it.str.b[it.pos:]})
	it.pos += size
	return TupleV{in.tb.True, in.tb.Const(64, uint64(start)), r}
}

// decodeRune decodes the first rune of s using the real utf8 package code
// (so symbolic bytes fork exactly where the real decoder branches).
func (in *Interp) decodeRune(s StrV) (*Term, int) {
	if len(s.b) > 0 && s.b[0].IsConst() && s.b[0].val < 0x80 {
		return in.tb.Const(32, s.b[0].val), 1
	}
	pkg := in.prog.ImportedPackage("unicode/utf8")
	if pkg == nil {
		panic(unsupported("unicode/utf8 not loaded for rune decoding"))
	}
	fn := pkg.Func("DecodeRuneInString")
	res := in.callFunction(fn, []Value{s}, nil).(TupleV)
	size := int(in.concretize(res[1].(*Term), "rune size"))
	return res[0].(*Term), size
}

func (in *Interp) encodeRune(r *Term) []*Term {
	if r.IsConst() {
		var out []*Term
		for _, b := range []byte(string(rune(int32(r.val)))) {
			out = append(out, in.tb.Const(8, uint64(b)))
		}
		return out
	}
	pkg := in.prog.ImportedPackage("unicode/utf8")
	if pkg == nil {
		panic(unsupported("unicode/utf8 not loaded for rune encoding"))
	}
	fn := pkg.Func("AppendRune")
	res := in.callFunction(fn, []Value{SliceV{}, r}, nil).(SliceV)
	out := make([]*Term, res.len)
	for i := range out {
		out[i] = in.load(in.elem(res.arr, res.off+i)).(*Term)
	}
	return out
}

func anySymbolic(args []Value) bool {
	for _, a := range args {
		switch x := a.(type) {
		case *Term:
			if !x.IsConst() {
				return true
			}
		case StrV:
			for _, b := range x.b {
				if !b.IsConst() {
					return true
				}
			}
		}
	}
	return false
}

func fnKey(fn *ssa.Function) string {
	if o := fn.Origin(); o != nil {
		return o.String()
	}
	return fn.String()
}

var _ = strings.Contains
