package main

import (
	"fmt"
	"go/types"
	"strings"

	"golang.org/x/tools/go/ssa"
)

// Value is one of:
//
//	*Term            integers (bit-vector) and booleans (width 0)
//	FloatV           float32/float64 (concrete only)
//	StrV             string: concrete length, bytes are 8-bit terms
//	*StructV         struct value (immutable)
//	*ArrayV          array value (immutable)
//	SliceV           slice header
//	PtrV             pointer to a Cell (nil Cell = nil pointer)
//	IfaceV           interface value (t == nil: nil interface)
//	*MapObj          map (nil = nil map)
//	*ClosureV        closure
//	*ssa.Function    function value
//	*ssa.Builtin     builtin
//	nilFunc          nil function value
//	TupleV           multiple results
//	*RangeIter       iterator produced by ssa.Range
//	*ChanObj         channel (minimal)
type Value interface{}

type FloatV float64

type ComplexV complex128

type StrV struct{ b []*Term }

type StructV struct{ f []Value }

type ArrayV struct{ e []Value }

type SliceV struct {
	arr      *ArrObj
	off, len int
	cap      int
}

type PtrV struct {
	c   *Cell
	sym *SymRef // non-nil: element of arr at a symbolic index (read = ite chain)
}

type SymRef struct {
	arr    *ArrObj
	off, n int
	idx    *Term // 64-bit, known to be < n on this path
}

type IfaceV struct {
	t types.Type
	v Value
}

type ClosureV struct {
	fn   *ssa.Function
	free []Value
}

type nilFunc struct{}

type TupleV []Value

type ChanObj struct {
	buf    []Value
	cap    int
	closed bool
}

// Cell is an addressable memory location.
type Cell struct {
	kind uint8 // 0 leaf, 1 struct, 2 array
	v    Value
	sub  []*Cell // struct fields
	arr  *ArrObj // array backing
	off  int     // array view offset
	n    int     // array view length
	t    types.Type
	born uint32
	parr *ArrObj // backing array this cell is an element of (for unsafe.String/Slice)
	pidx int
	bad  string // non-empty: the initialiser of this (global) memory could not be executed
}

type ArrObj struct {
	cells []*Cell
	et    types.Type
	born  uint32
	bad   string
}

type mapEnt struct {
	k, v Value
}

type MapObj struct {
	ents  []mapEnt
	kt    types.Type
	vt    types.Type
	born  uint32
	saved uint32 // epoch in which a snapshot was logged
	bad   string
}

type RangeIter struct {
	isMap bool
	ents  []mapEnt
	str   StrV
	pos   int
}

type undoRec struct {
	c    *Cell
	old  Value
	m    *MapObj
	ents []mapEnt
}

func widthOf(t types.Type) int {
	switch b := t.Underlying().(type) {
	case *types.Basic:
		switch b.Kind() {
		case types.Bool, types.UntypedBool:
			return 0
		case types.Int8, types.Uint8:
			return 8
		case types.Int16, types.Uint16:
			return 16
		case types.Int32, types.Uint32, types.UntypedRune:
			return 32
		case types.Int, types.Uint, types.Int64, types.Uint64, types.Uintptr, types.UntypedInt:
			return 64
		}
	}
	return -1
}

func isSigned(t types.Type) bool {
	if b, ok := t.Underlying().(*types.Basic); ok {
		return b.Info()&types.IsInteger != 0 && b.Info()&types.IsUnsigned == 0
	}
	return false
}

func isInteger(t types.Type) bool {
	b, ok := t.Underlying().(*types.Basic)
	return ok && b.Info()&types.IsInteger != 0
}

func isFloat(t types.Type) bool {
	b, ok := t.Underlying().(*types.Basic)
	return ok && b.Info()&types.IsFloat != 0
}

func isString(t types.Type) bool {
	b, ok := t.Underlying().(*types.Basic)
	return ok && b.Info()&types.IsString != 0
}

func isBoolean(t types.Type) bool {
	b, ok := t.Underlying().(*types.Basic)
	return ok && b.Info()&types.IsBoolean != 0
}

func (in *Interp) zero(t types.Type) Value {
	switch u := t.Underlying().(type) {
	case *types.Basic:
		switch {
		case u.Kind() == types.UnsafePointer:
			return PtrV{}
		case u.Info()&types.IsBoolean != 0:
			return in.tb.False
		case u.Info()&types.IsInteger != 0:
			return in.tb.Const(widthOf(u), 0)
		case u.Info()&types.IsFloat != 0:
			return FloatV(0)
		case u.Info()&types.IsComplex != 0:
			return ComplexV(0)
		case u.Info()&types.IsString != 0:
			return StrV{}
		case u.Kind() == types.UntypedNil:
			return IfaceV{}
		}
	case *types.Pointer:
		return PtrV{}
	case *types.Slice:
		return SliceV{}
	case *types.Map:
		return (*MapObj)(nil)
	case *types.Interface:
		return IfaceV{}
	case *types.Signature:
		return nilFunc{}
	case *types.Chan:
		return (*ChanObj)(nil)
	case *types.Struct:
		s := &StructV{f: make([]Value, u.NumFields())}
		for i := range s.f {
			s.f[i] = in.zero(u.Field(i).Type())
		}
		return s
	case *types.Array:
		n := int(u.Len())
		a := &ArrayV{e: make([]Value, n)}
		if n > 0 {
			z := in.zero(u.Elem())
			for i := range a.e {
				a.e[i] = z
			}
		}
		return a
	case *types.Tuple:
		tv := make(TupleV, u.Len())
		for i := range tv {
			tv[i] = in.zero(u.At(i).Type())
		}
		return tv
	}
	panic(unsupported("zero value of " + t.String()))
}

func (in *Interp) newCell(t types.Type) *Cell {
	c := &Cell{t: t, born: in.epoch}
	switch u := t.Underlying().(type) {
	case *types.Struct:
		c.kind = 1
		c.sub = make([]*Cell, u.NumFields())
		for i := range c.sub {
			c.sub[i] = in.newCell(u.Field(i).Type())
		}
	case *types.Array:
		c.kind = 2
		c.n = int(u.Len())
		c.arr = &ArrObj{cells: make([]*Cell, c.n), et: u.Elem(), born: in.epoch}
	default:
		c.v = in.zero(t)
	}
	return c
}

func (in *Interp) newArr(et types.Type, n int) *ArrObj {
	return &ArrObj{cells: make([]*Cell, n), et: et, born: in.epoch}
}

func (in *Interp) elem(a *ArrObj, i int) *Cell {
	c := a.cells[i]
	if c == nil {
		save := in.epoch
		in.epoch = a.born
		c = in.newCell(a.et)
		in.epoch = save
		if a.bad != "" {
			in.poisonCell(c, a.bad)
		}
		c.parr, c.pidx = a, i
		a.cells[i] = c
	}
	return c
}

func (in *Interp) load(c *Cell) Value {
	switch c.kind {
	case 0:
		if c.bad != "" {
			panic(unsupported("read of memory whose package initialiser could not be executed (" + c.bad + ")"))
		}
		return c.v
	case 1:
		s := &StructV{f: make([]Value, len(c.sub))}
		for i, sc := range c.sub {
			s.f[i] = in.load(sc)
		}
		return s
	default:
		a := &ArrayV{e: make([]Value, c.n)}
		var z Value
		for i := 0; i < c.n; i++ {
			ec := c.arr.cells[c.off+i]
			if ec == nil && c.arr.bad != "" {
				panic(unsupported("read of memory whose package initialiser could not be executed (" + c.arr.bad + ")"))
			}
			if ec == nil {
				if z == nil {
					z = in.zero(c.arr.et)
				}
				a.e[i] = z
			} else {
				a.e[i] = in.load(ec)
			}
		}
		return a
	}
}

func (in *Interp) store(c *Cell, v Value) {
	switch c.kind {
	case 0:
		if c.born != in.epoch && !in.inInit {
			in.undo = append(in.undo, undoRec{c: c, old: c.v})
		}
		c.v = v
		c.bad = ""
	case 1:
		s, ok := v.(*StructV)
		if !ok {
			panic(fmt.Sprintf("store: struct cell %s gets %T", c.t, v))
		}
		for i, sc := range c.sub {
			in.store(sc, s.f[i])
		}
	default:
		a, ok := v.(*ArrayV)
		if !ok {
			panic(fmt.Sprintf("store: array cell %s gets %T", c.t, v))
		}
		for i := 0; i < c.n; i++ {
			in.store(in.elem(c.arr, c.off+i), a.e[i])
		}
	}
}

// storeRaw stores without undo logging (permanent, interned objects).
func (in *Interp) storeRaw(c *Cell, v Value) {
	save := in.inInit
	in.inInit = true
	in.store(c, v)
	in.inInit = save
}

func (in *Interp) mapTouch(m *MapObj) {
	if m.born != in.epoch && !in.inInit && m.saved != in.epoch {
		m.saved = in.epoch
		in.undo = append(in.undo, undoRec{m: m, ents: append([]mapEnt(nil), m.ents...)})
	}
}

func (in *Interp) rollback() {
	for i := len(in.undo) - 1; i >= 0; i-- {
		u := in.undo[i]
		if u.c != nil {
			u.c.v = u.old
		} else {
			u.m.ents = u.ents
			u.m.saved = 0
		}
	}
	in.undo = in.undo[:0]
}

// ---------------------------------------------------------------- strings

func (in *Interp) strConst(s string) StrV {
	b := make([]*Term, len(s))
	for i := 0; i < len(s); i++ {
		b[i] = in.tb.Const(8, uint64(s[i]))
	}
	return StrV{b}
}

func (s StrV) Conc() (string, bool) {
	var sb strings.Builder
	for _, t := range s.b {
		if !t.IsConst() {
			return "", false
		}
		sb.WriteByte(byte(t.val))
	}
	return sb.String(), true
}

func (in *Interp) strEq(a, b StrV) *Term {
	if len(a.b) != len(b.b) {
		return in.tb.False
	}
	r := in.tb.True
	for i := range a.b {
		r = in.tb.And(r, in.tb.Eq(a.b[i], b.b[i]))
		if r == in.tb.False {
			return r
		}
	}
	return r
}

// strLess: a < b lexicographically (orEq: a <= b)
func (in *Interp) strLess(a, b StrV, orEq bool) *Term {
	n := len(a.b)
	if len(b.b) < n {
		n = len(b.b)
	}
	var r *Term
	switch {
	case len(a.b) < len(b.b):
		r = in.tb.True
	case len(a.b) == len(b.b):
		r = in.tb.Bool(orEq)
	default:
		r = in.tb.False
	}
	for i := n - 1; i >= 0; i-- {
		lt := in.tb.Bin(OpULt, a.b[i], b.b[i])
		eq := in.tb.Eq(a.b[i], b.b[i])
		r = in.tb.Ite(lt, in.tb.True, in.tb.Ite(eq, r, in.tb.False))
	}
	return r
}

// describe renders a value for diagnostics.
func describe(v Value) string {
	switch x := v.(type) {
	case nil:
		return "<unset>"
	case *Term:
		return x.String()
	case StrV:
		if s, ok := x.Conc(); ok {
			return fmt.Sprintf("%q", s)
		}
		return fmt.Sprintf("str[%d sym]", len(x.b))
	case FloatV:
		return fmt.Sprint(float64(x))
	case *StructV:
		parts := []string{}
		for _, f := range x.f {
			parts = append(parts, describe(f))
		}
		return "{" + strings.Join(parts, ", ") + "}"
	case PtrV:
		if x.c == nil {
			return "nil-ptr"
		}
		return fmt.Sprintf("&(%s)", x.c.t)
	case IfaceV:
		if x.t == nil {
			return "nil-iface"
		}
		return fmt.Sprintf("iface(%s: %s)", x.t, describe(x.v))
	case SliceV:
		return fmt.Sprintf("slice[len %d cap %d]", x.len, x.cap)
	case TupleV:
		parts := []string{}
		for _, f := range x {
			parts = append(parts, describe(f))
		}
		return "(" + strings.Join(parts, ", ") + ")"
	}
	return fmt.Sprintf("%T", v)
}
