package main

// Integer translation of bit-vector queries ("bv-as-int with interval-based
// mod elimination"). Each bit-vector term t of width w is translated into an
// Int expression E(t) with 0 <= E(t) < 2^w denoting its unsigned value. An
// interval [lo,hi] is computed for every term from operand intervals and
// from the top-level atoms asserted in the query; the reduction `mod 2^w`
// after +, -, * is omitted exactly when the interval shows the exact result
// fits. Wide multiply/divide-by-constant chains (strconv, time.Unix*,
// multipleOf) become linear integer arithmetic, which z3/cvc5 decide in
// seconds where bit-blasting does not finish.
//
// The translation is validated on every query by evaluating both the BV term
// (engine evaluator) and the Int expression on boundary and pseudo-random
// assignments inside the variable bounds; a disagreement disables the
// translation for that query (and is counted).

import (
	"context"
	"fmt"
	"math/big"
	"math/rand"
	"os"
	"os/exec"
	"strings"
	"time"
)

type IExpr struct {
	op   string // "c","v","+","-","*","div","mod","ite","<","<=","=","and","or","not","true","false"
	args []*IExpr
	c    *big.Int
	name string
	id   int
	bool bool
}

type itv struct{ lo, hi *big.Int }

type itrans struct {
	e  *IExpr
	iv itv
	tz int // guaranteed trailing zero bits
}

type intTranslator struct {
	tb     *TB
	memo   map[*Term]*itrans
	bmemo  map[*Term]*IExpr
	bounds map[*Term]itv // from asserted top-level atoms
	vars   map[string]int
	nextID int
	failed string
	side   []*IExpr
}

var (
	big0 = big.NewInt(0)
	big1 = big.NewInt(1)
)

func pow2(w int) *big.Int { return new(big.Int).Lsh(big1, uint(w)) }

func bi(v uint64) *big.Int { return new(big.Int).SetUint64(v) }

func (x *intTranslator) mk(op string, args ...*IExpr) *IExpr {
	x.nextID++
	return &IExpr{op: op, args: args, id: x.nextID}
}
func (x *intTranslator) mkb(op string, args ...*IExpr) *IExpr {
	e := x.mk(op, args...)
	e.bool = true
	return e
}
func (x *intTranslator) konst(c *big.Int) *IExpr {
	x.nextID++
	return &IExpr{op: "c", c: c, id: x.nextID}
}

func newIntTranslator(tb *TB, asserted []*Term) *intTranslator {
	x := &intTranslator{tb: tb, memo: map[*Term]*itrans{}, bmemo: map[*Term]*IExpr{}, bounds: map[*Term]itv{}, vars: map[string]int{}}
	// harvest bounds from top-level atoms: t <u c, t <=u c, c <u t, c <=u t and their negations, t == c
	var harvest func(a *Term, neg bool)
	harvest = func(a *Term, neg bool) {
		switch a.op {
		case OpBNot:
			harvest(a.a, !neg)
		case OpBAnd:
			if !neg {
				harvest(a.a, false)
				harvest(a.b, false)
			}
		case OpBOr:
			if neg {
				harvest(a.a, true)
				harvest(a.b, true)
			}
		case OpULt, OpULe:
			l, r := a.a, a.b
			strict := a.op == OpULt
			if neg { // !(l < r) == r <= l ; !(l <= r) == r < l
				l, r = r, l
				strict = !strict
			}
			if r.IsConst() && !l.IsConst() {
				hi := bi(r.val)
				if strict {
					if r.val == 0 {
						return
					}
					hi = bi(r.val - 1)
				}
				x.addBound(l, nil, hi)
			} else if l.IsConst() && !r.IsConst() {
				lo := bi(l.val)
				if strict {
					lo = new(big.Int).Add(lo, big1)
				}
				x.addBound(r, lo, nil)
			}
		case OpSLt, OpSLe:
			// sign tests against zero: t <s 0  ==  t >=u 2^(w-1)
			if a.b.IsConst() && a.b.val == 0 && !a.a.IsConst() {
				w := a.a.w
				half := pow2(w - 1)
				isNegative := a.op == OpSLt // t < 0 ; (t <= 0 is not a pure sign test)
				if a.op == OpSLe {
					return
				}
				if neg {
					isNegative = !isNegative
				}
				if isNegative {
					x.addBound(a.a, half, nil)
				} else {
					x.addBound(a.a, nil, new(big.Int).Sub(half, big1))
				}
			}
		case OpEq:
			if !neg && a.a.w > 0 && a.b.IsConst() {
				x.addBound(a.a, bi(a.b.val), bi(a.b.val))
			}
		}
	}
	for _, a := range asserted {
		harvest(a, false)
	}
	// back-propagate bounds through negation of a variable (magnitude of a negative value)
	for t, b := range x.bounds {
		if t.op == OpNeg && t.a.op == OpVar && b.lo.Sign() > 0 {
			m := pow2(t.w)
			x.addBound(t.a, new(big.Int).Sub(m, b.hi), new(big.Int).Sub(m, b.lo))
		}
	}
	return x
}

func (x *intTranslator) addBound(t *Term, lo, hi *big.Int) {
	b, ok := x.bounds[t]
	if !ok {
		b = itv{big0, new(big.Int).Sub(pow2(t.w), big1)}
	}
	if lo != nil && lo.Cmp(b.lo) > 0 {
		b.lo = lo
	}
	if hi != nil && hi.Cmp(b.hi) < 0 {
		b.hi = hi
	}
	x.bounds[t] = b
}

func (x *intTranslator) fail(why string) {
	if x.failed == "" {
		x.failed = why
	}
}

func maxB(a, b *big.Int) *big.Int {
	if a.Cmp(b) >= 0 {
		return a
	}
	return b
}
func minB(a, b *big.Int) *big.Int {
	if a.Cmp(b) <= 0 {
		return a
	}
	return b
}

// reduce wraps e into [0,2^w) given the exact-result interval [lo,hi].
func (x *intTranslator) reduce(e *IExpr, lo, hi *big.Int, w int) (*IExpr, itv) {
	m := pow2(w)
	top := new(big.Int).Sub(m, big1)
	if lo.Sign() >= 0 && hi.Cmp(top) <= 0 {
		return e, itv{lo, hi}
	}
	// whole interval inside one other window [k*m, (k+1)*m)
	k := new(big.Int).Div(lo, m) // floor
	k2 := new(big.Int).Div(hi, m)
	if k.Cmp(k2) == 0 {
		off := new(big.Int).Mul(k, m)
		return x.mk("-", e, x.konst(off)), itv{new(big.Int).Sub(lo, off), new(big.Int).Sub(hi, off)}
	}
	return x.mk("mod", e, x.konst(m)), itv{big0, top}
}

func (x *intTranslator) signedOf(t *itrans, w int) (*IExpr, itv) {
	half := pow2(w - 1)
	if t.iv.hi.Cmp(half) < 0 {
		return t.e, t.iv
	}
	m := pow2(w)
	if t.iv.lo.Cmp(half) >= 0 {
		return x.mk("-", t.e, x.konst(m)), itv{new(big.Int).Sub(t.iv.lo, m), new(big.Int).Sub(t.iv.hi, m)}
	}
	e := x.mk("ite", x.mkb("<", t.e, x.konst(half)), t.e, x.mk("-", t.e, x.konst(m)))
	return e, itv{new(big.Int).Neg(half), new(big.Int).Sub(half, big1)}
}

func tzOfConst(v uint64, w int) int {
	if v == 0 {
		return w
	}
	n := 0
	for v&1 == 0 {
		v >>= 1
		n++
	}
	return n
}

func (x *intTranslator) bv(t *Term) *itrans {
	if r, ok := x.memo[t]; ok {
		return r
	}
	r := x.bv0(t)
	if t.w > 0 && t.op != OpConst {
		// the engine's own (sound, assumption-free) interval analysis tightens the interval
		rg := x.tb.rangeOf(t)
		lo, hi := bi(rg.lo), bi(rg.hi)
		if lo.Cmp(r.iv.lo) > 0 || hi.Cmp(r.iv.hi) < 0 {
			nl, nh := maxB(r.iv.lo, lo), minB(r.iv.hi, hi)
			if nl.Cmp(nh) <= 0 {
				r = &itrans{e: r.e, iv: itv{nl, nh}, tz: r.tz}
			}
		}
	}
	if b, ok := x.bounds[t]; ok && r != nil {
		// The bound comes from an asserted atom; it is re-asserted here over the
		// translation of t that does NOT use it (only bounds of strict sub-terms),
		// so that using it afterwards - even inside the atom it came from - is sound.
		x.side = append(x.side, x.mkb("and", x.mkb("<=", x.konst(b.lo), r.e), x.mkb("<=", r.e, x.konst(b.hi))))
		r = &itrans{e: r.e, iv: itv{maxB(r.iv.lo, b.lo), minB(r.iv.hi, b.hi)}, tz: r.tz}
		if r.iv.lo.Cmp(r.iv.hi) > 0 { // contradictory bounds: query is unsat anyway; keep a sane interval
			r.iv = itv{b.lo, b.lo}
		}
	}
	x.memo[t] = r
	return r
}

func (x *intTranslator) bv0(t *Term) *itrans {
	w := t.w
	top := new(big.Int).Sub(pow2(w), big1)
	full := itv{big0, top}
	switch t.op {
	case OpConst:
		c := bi(t.val)
		return &itrans{e: x.konst(c), iv: itv{c, c}, tz: tzOfConst(t.val, w)}
	case OpVar:
		e := x.mk("v")
		e.name = t.name
		x.vars[t.name] = w
		return &itrans{e: e, iv: full}
	case OpAdd, OpSub, OpMul:
		a, b := x.bv(t.a), x.bv(t.b)
		var e *IExpr
		var lo, hi *big.Int
		tz := 0
		switch t.op {
		case OpAdd:
			e = x.mk("+", a.e, b.e)
			lo, hi = new(big.Int).Add(a.iv.lo, b.iv.lo), new(big.Int).Add(a.iv.hi, b.iv.hi)
			tz = minInt(a.tz, b.tz)
		case OpSub:
			e = x.mk("-", a.e, b.e)
			lo, hi = new(big.Int).Sub(a.iv.lo, b.iv.hi), new(big.Int).Sub(a.iv.hi, b.iv.lo)
			tz = minInt(a.tz, b.tz)
		default:
			e = x.mk("*", a.e, b.e)
			lo, hi = new(big.Int).Mul(a.iv.lo, b.iv.lo), new(big.Int).Mul(a.iv.hi, b.iv.hi)
			tz = minInt(a.tz+b.tz, w)
			if !t.a.IsConst() && !t.b.IsConst() {
				x.fail("nonlinear multiplication")
			}
		}
		re, iv := x.reduce(e, lo, hi, w)
		return &itrans{e: re, iv: iv, tz: tz}
	case OpNeg:
		a := x.bv(t.a)
		e := x.mk("-", x.konst(big0), a.e)
		re, iv := x.reduce(e, new(big.Int).Neg(a.iv.hi), new(big.Int).Neg(a.iv.lo), w)
		if a.iv.lo.Sign() == 0 && a.iv.hi.Sign() > 0 {
			// 0 maps to 0, others to 2^w - a: two windows -> mod
			re, iv = x.mk("mod", e, x.konst(pow2(w))), full
		}
		return &itrans{e: re, iv: iv, tz: a.tz}
	case OpBVNot:
		a := x.bv(t.a)
		return &itrans{e: x.mk("-", x.konst(top), a.e), iv: itv{new(big.Int).Sub(top, a.iv.hi), new(big.Int).Sub(top, a.iv.lo)}}
	case OpUDiv, OpURem:
		if !t.b.IsConst() {
			x.fail("division by a non-constant")
			return &itrans{e: x.konst(big0), iv: full}
		}
		a, b := x.bv(t.a), x.bv(t.b)
		if b.iv.lo.Sign() == 0 {
			if b.iv.hi.Sign() == 0 {
				x.fail("division by constant zero")
				return &itrans{e: x.konst(big0), iv: full}
			}
			// possible zero divisor: SMT-LIB bv semantics
			var e *IExpr
			if t.op == OpUDiv {
				e = x.mk("ite", x.mkb("=", b.e, x.konst(big0)), x.konst(top), x.mk("div", a.e, b.e))
				return &itrans{e: e, iv: full}
			}
			e = x.mk("ite", x.mkb("=", b.e, x.konst(big0)), a.e, x.mk("mod", a.e, b.e))
			return &itrans{e: e, iv: itv{big0, a.iv.hi}}
		}
		if t.op == OpUDiv {
			return &itrans{e: x.mk("div", a.e, b.e), iv: itv{new(big.Int).Div(a.iv.lo, b.iv.hi), new(big.Int).Div(a.iv.hi, b.iv.lo)}}
		}
		return &itrans{e: x.mk("mod", a.e, b.e), iv: itv{big0, minB(a.iv.hi, new(big.Int).Sub(b.iv.hi, big1))}}
	case OpSDiv, OpSRem:
		a, b := x.bv(t.a), x.bv(t.b)
		if !t.b.IsConst() || t.b.val == 0 {
			x.fail("signed division by a non-constant")
			return &itrans{e: x.konst(big0), iv: full}
		}
		sa, siv := x.signedOf(a, w)
		cb := big.NewInt(sext(t.b.val, w))
		_ = b
		// truncated division: q = sign(a)*sign(b) * (|a| div |b|)
		absb := new(big.Int).Abs(cb)
		var absa *IExpr
		nonneg := siv.lo.Sign() >= 0
		nonpos := siv.hi.Sign() <= 0
		switch {
		case nonneg:
			absa = sa
		case nonpos:
			absa = x.mk("-", x.konst(big0), sa)
		default:
			absa = x.mk("ite", x.mkb("<", sa, x.konst(big0)), x.mk("-", x.konst(big0), sa), sa)
		}
		qabs := x.mk("div", absa, x.konst(absb))
		negq := x.mk("-", x.konst(big0), qabs)
		var q *IExpr
		bneg := cb.Sign() < 0
		switch {
		case nonneg:
			if bneg {
				q = negq
			} else {
				q = qabs
			}
		case nonpos:
			if bneg {
				q = qabs
			} else {
				q = negq
			}
		default:
			isneg := x.mkb("<", sa, x.konst(big0))
			if bneg {
				q = x.mk("ite", isneg, qabs, negq)
			} else {
				q = x.mk("ite", isneg, negq, qabs)
			}
		}
		if t.op == OpSDiv {
			mx := new(big.Int).Div(maxB(new(big.Int).Abs(siv.lo), new(big.Int).Abs(siv.hi)), absb)
			qlo, qhi := new(big.Int).Neg(mx), mx
			if nonneg && !bneg {
				qlo, qhi = new(big.Int).Div(siv.lo, absb), new(big.Int).Div(siv.hi, absb)
			}
			re, iv := x.reduce(q, qlo, qhi, w)
			return &itrans{e: re, iv: iv}
		}
		// r = a - q*b
		r := x.mk("-", sa, x.mk("*", q, x.konst(cb)))
		am1 := new(big.Int).Sub(absb, big1)
		rlo, rhi := new(big.Int).Neg(am1), am1 // remainder has the sign of the dividend
		if nonneg {
			rlo = big0
			rhi = minB(rhi, siv.hi)
		}
		if nonpos {
			rhi = big0
			rlo = maxB(rlo, siv.lo)
		}
		re, iv := x.reduce(r, rlo, rhi, w)
		return &itrans{e: re, iv: iv}
	case OpShl:
		a := x.bv(t.a)
		if !t.b.IsConst() {
			x.fail("shift by a non-constant")
			return &itrans{e: x.konst(big0), iv: full}
		}
		k := int(t.b.val)
		if k >= w {
			return &itrans{e: x.konst(big0), iv: itv{big0, big0}, tz: w}
		}
		f := pow2(k)
		e := x.mk("*", a.e, x.konst(f))
		re, iv := x.reduce(e, new(big.Int).Mul(a.iv.lo, f), new(big.Int).Mul(a.iv.hi, f), w)
		return &itrans{e: re, iv: iv, tz: minInt(a.tz+k, w)}
	case OpLShr:
		a := x.bv(t.a)
		if !t.b.IsConst() {
			x.fail("shift by a non-constant")
			return &itrans{e: x.konst(big0), iv: full}
		}
		k := int(t.b.val)
		if k >= w {
			return &itrans{e: x.konst(big0), iv: itv{big0, big0}, tz: w}
		}
		f := pow2(k)
		return &itrans{e: x.mk("div", a.e, x.konst(f)), iv: itv{new(big.Int).Div(a.iv.lo, f), new(big.Int).Div(a.iv.hi, f)}}
	case OpAShr:
		a := x.bv(t.a)
		if !t.b.IsConst() {
			x.fail("shift by a non-constant")
			return &itrans{e: x.konst(big0), iv: full}
		}
		k := int(t.b.val)
		if k >= w {
			k = w - 1
		}
		sa, siv := x.signedOf(a, w)
		f := pow2(k)
		e := x.mk("div", sa, x.konst(f)) // SMT div with positive divisor is floor division
		re, iv := x.reduce(e, new(big.Int).Div(siv.lo, f), new(big.Int).Div(siv.hi, f), w)
		return &itrans{e: re, iv: iv}
	case OpAnd:
		a, b := x.bv(t.a), x.bv(t.b)
		if t.b.IsConst() {
			m := t.b.val
			if m&(m+1) == 0 { // low mask 2^k-1
				k := 0
				for (uint64(1)<<uint(k))-1 != m && k < 64 {
					k++
				}
				if a.iv.hi.Cmp(bi(m)) <= 0 {
					return a
				}
				return &itrans{e: x.mk("mod", a.e, x.konst(pow2(k))), iv: itv{big0, bi(m)}}
			}
			inv := ^m & mask(w)
			if inv&(inv+1) == 0 { // clears the low k bits
				k := 0
				for (uint64(1)<<uint(k))-1 != inv {
					k++
				}
				e := x.mk("-", a.e, x.mk("mod", a.e, x.konst(pow2(k))))
				return &itrans{e: e, iv: itv{big0, a.iv.hi}, tz: k}
			}
			// single contiguous field: (a div 2^lo) mod 2^n * 2^lo
			lo := tzOfConst(m, w)
			fld := m >> uint(lo)
			if a.iv.hi.Cmp(pow2(lo)) < 0 {
				return &itrans{e: x.konst(big0), iv: itv{big0, big0}, tz: w}
			}
			if fld&(fld+1) == 0 {
				n := 0
				for (uint64(1)<<uint(n))-1 != fld {
					n++
				}
				e := x.mk("*", x.mk("mod", x.mk("div", a.e, x.konst(pow2(lo))), x.konst(pow2(n))), x.konst(pow2(lo)))
				return &itrans{e: e, iv: itv{big0, bi(m)}, tz: lo}
			}
		}
		_ = b
		x.fail("bvand with a non-mask operand")
		return &itrans{e: x.konst(big0), iv: full}
	case OpOr, OpXor:
		a, b := x.bv(t.a), x.bv(t.b)
		// disjoint bit ranges: or == xor == add
		if b.iv.hi.Cmp(pow2(a.tz)) < 0 || a.iv.hi.Cmp(pow2(b.tz)) < 0 {
			e := x.mk("+", a.e, b.e)
			return &itrans{e: e, iv: itv{new(big.Int).Add(a.iv.lo, b.iv.lo), new(big.Int).Add(a.iv.hi, b.iv.hi)}, tz: minInt(a.tz, b.tz)}
		}
		x.fail("bvor/bvxor with overlapping operands")
		return &itrans{e: x.konst(big0), iv: full}
	case OpIte:
		c := x.boolT(t.a)
		a, b := x.bv(t.b), x.bv(t.c)
		return &itrans{e: x.mk("ite", c, a.e, b.e), iv: itv{minB(a.iv.lo, b.iv.lo), maxB(a.iv.hi, b.iv.hi)}, tz: minInt(a.tz, b.tz)}
	case OpExtract:
		a := x.bv(t.a)
		hi, lo := int(t.val>>8), int(t.val&0xff)
		n := hi - lo + 1
		e := a.e
		ivl, ivh := a.iv.lo, a.iv.hi
		if lo > 0 {
			f := pow2(lo)
			e = x.mk("div", e, x.konst(f))
			ivl, ivh = new(big.Int).Div(ivl, f), new(big.Int).Div(ivh, f)
		}
		m := pow2(n)
		if ivh.Cmp(m) < 0 {
			tz := 0
			if lo == 0 {
				tz = minInt(a.tz, n)
			}
			return &itrans{e: e, iv: itv{ivl, ivh}, tz: tz}
		}
		return &itrans{e: x.mk("mod", e, x.konst(m)), iv: itv{big0, new(big.Int).Sub(m, big1)}}
	case OpConcat:
		a, b := x.bv(t.a), x.bv(t.b)
		f := pow2(t.b.w)
		e := x.mk("+", x.mk("*", a.e, x.konst(f)), b.e)
		return &itrans{e: e, iv: itv{new(big.Int).Add(new(big.Int).Mul(a.iv.lo, f), b.iv.lo), new(big.Int).Add(new(big.Int).Mul(a.iv.hi, f), b.iv.hi)}}
	case OpZExt:
		a := x.bv(t.a)
		return &itrans{e: a.e, iv: a.iv, tz: a.tz}
	case OpSExt:
		a := x.bv(t.a)
		wa := t.a.w
		half := pow2(wa - 1)
		if a.iv.hi.Cmp(half) < 0 {
			return &itrans{e: a.e, iv: a.iv, tz: a.tz}
		}
		off := new(big.Int).Sub(pow2(w), pow2(wa))
		if a.iv.lo.Cmp(half) >= 0 {
			return &itrans{e: x.mk("+", a.e, x.konst(off)), iv: itv{new(big.Int).Add(a.iv.lo, off), new(big.Int).Add(a.iv.hi, off)}}
		}
		e := x.mk("ite", x.mkb("<", a.e, x.konst(half)), a.e, x.mk("+", a.e, x.konst(off)))
		return &itrans{e: e, iv: full}
	}
	x.fail("unsupported bv op " + opNames[t.op])
	return &itrans{e: x.konst(big0), iv: full}
}

func (x *intTranslator) boolT(t *Term) *IExpr {
	if r, ok := x.bmemo[t]; ok {
		return r
	}
	var r *IExpr
	switch t.op {
	case OpConst:
		if t.val != 0 {
			r = x.mkb("true")
		} else {
			r = x.mkb("false")
		}
	case OpVar:
		r = x.mkb("v")
		r.name = t.name
		x.vars[t.name] = 0
	case OpBNot:
		r = x.mkb("not", x.boolT(t.a))
	case OpBAnd:
		r = x.mkb("and", x.boolT(t.a), x.boolT(t.b))
	case OpBOr:
		r = x.mkb("or", x.boolT(t.a), x.boolT(t.b))
	case OpIte:
		r = x.mkb("ite", x.boolT(t.a), x.boolT(t.b), x.boolT(t.c))
	case OpEq:
		if t.a.w == 0 {
			r = x.mkb("=", x.boolT(t.a), x.boolT(t.b))
		} else {
			a, b := x.bv(t.a), x.bv(t.b)
			r = x.mkb("=", a.e, b.e)
		}
	case OpULt, OpULe:
		a, b := x.bv(t.a), x.bv(t.b)
		op := "<"
		if t.op == OpULe {
			op = "<="
		}
		r = x.mkb(op, a.e, b.e)
	case OpSLt, OpSLe:
		a, b := x.bv(t.a), x.bv(t.b)
		sa, _ := x.signedOf(a, t.a.w)
		sb, _ := x.signedOf(b, t.a.w)
		op := "<"
		if t.op == OpSLe {
			op = "<="
		}
		r = x.mkb(op, sa, sb)
	default:
		x.fail("unsupported bool op " + opNames[t.op])
		r = x.mkb("true")
	}
	x.bmemo[t] = r
	return r
}

func minInt(a, b int) int {
	if a < b {
		return a
	}
	return b
}

// ---------------------------------------------------------------- evaluation (self-check)

func (e *IExpr) eval(env map[string]*big.Int, memo map[int]*big.Int) *big.Int {
	if v, ok := memo[e.id]; ok {
		return v
	}
	var r *big.Int
	b2i := func(b bool) *big.Int {
		if b {
			return big1
		}
		return big0
	}
	arg := func(i int) *big.Int { return e.args[i].eval(env, memo) }
	switch e.op {
	case "c":
		r = e.c
	case "v":
		r = env[e.name]
		if r == nil {
			r = big0
		}
	case "true":
		r = big1
	case "false":
		r = big0
	case "+":
		r = new(big.Int).Add(arg(0), arg(1))
	case "-":
		r = new(big.Int).Sub(arg(0), arg(1))
	case "*":
		r = new(big.Int).Mul(arg(0), arg(1))
	case "div":
		d := arg(1)
		if d.Sign() == 0 {
			r = big0
		} else {
			r = new(big.Int).Div(arg(0), d) // Euclidean, as SMT-LIB
		}
	case "mod":
		d := arg(1)
		if d.Sign() == 0 {
			r = arg(0)
		} else {
			r = new(big.Int).Mod(arg(0), d)
		}
	case "ite":
		if arg(0).Sign() != 0 {
			r = arg(1)
		} else {
			r = arg(2)
		}
	case "<":
		r = b2i(arg(0).Cmp(arg(1)) < 0)
	case "<=":
		r = b2i(arg(0).Cmp(arg(1)) <= 0)
	case "=":
		r = b2i(arg(0).Cmp(arg(1)) == 0)
	case "and":
		r = b2i(arg(0).Sign() != 0 && arg(1).Sign() != 0)
	case "or":
		r = b2i(arg(0).Sign() != 0 || arg(1).Sign() != 0)
	case "not":
		r = b2i(arg(0).Sign() == 0)
	default:
		panic("IExpr.eval: " + e.op)
	}
	memo[e.id] = r
	return r
}

// selfCheck compares the BV evaluator and the Int expression on assignments
// that satisfy the harvested bounds (the elimination of `mod` is justified
// only under those bounds).
func (x *intTranslator) selfCheck(terms []*Term, rng *rand.Rand, samples int) string {
	type vb struct {
		name   string
		w      int
		lo, hi *big.Int
	}
	var vbs []vb
	for name, w := range x.vars {
		lo, hi := big0, big1
		if w > 0 {
			hi = new(big.Int).Sub(pow2(w), big1)
		}
		for t, b := range x.bounds {
			if t.op == OpVar && t.name == name {
				lo, hi = b.lo, b.hi
			}
		}
		vbs = append(vbs, vb{name, w, lo, hi})
	}
	for s := 0; s < samples; s++ {
		vals := map[string]uint64{}
		env := map[string]*big.Int{}
		for _, v := range vbs {
			span := new(big.Int).Sub(v.hi, v.lo)
			var pick *big.Int
			switch s % 4 {
			case 0:
				pick = v.lo
			case 1:
				pick = v.hi
			default:
				pick = new(big.Int).Add(v.lo, new(big.Int).Rand(rng, new(big.Int).Add(span, big1)))
			}
			env[v.name] = pick
			vals[v.name] = pick.Uint64()
		}
		m := NewModel(vals)
		memo := map[int]*big.Int{}
		// only assignments satisfying every harvested bound are in the domain of the claim
		inDomain := true
		for t, b := range x.bounds {
			v := bi(m.Eval(t))
			if v.Cmp(b.lo) < 0 || v.Cmp(b.hi) > 0 {
				inDomain = false
				break
			}
		}
		if !inDomain {
			continue
		}
		for t, tr := range x.memo {
			want := bi(m.Eval(t))
			got := tr.e.eval(env, memo)
			if want.Cmp(got) != 0 {
				return fmt.Sprintf("term %s: bv=%s int=%s", t.String(), want, got)
			}
			if got.Cmp(tr.iv.lo) < 0 || got.Cmp(tr.iv.hi) > 0 {
				return fmt.Sprintf("term %s: value %s outside computed interval [%s,%s]", t.String(), got, tr.iv.lo, tr.iv.hi)
			}
		}
		for t, e := range x.bmemo {
			want := m.Eval(t)
			got := e.eval(env, memo)
			if (want != 0) != (got.Sign() != 0) {
				return fmt.Sprintf("bool term %s: bv=%d int=%s", t.String(), want, got)
			}
		}
	}
	return ""
}

// ---------------------------------------------------------------- printing and solving

func (x *intTranslator) script(asserts []*IExpr, wantModel bool, logic string) string {
	var sb strings.Builder
	if logic != "" {
		sb.WriteString("(set-logic " + logic + ")\n")
	}
	sb.WriteString("(set-option :produce-models true)\n")
	body, names := x.body(asserts)
	sb.WriteString(body)
	sb.WriteString("(check-sat)\n")
	if wantModel && len(names) > 0 {
		sb.WriteString("(get-value (" + strings.Join(names, " ") + "))\n")
	}
	return sb.String()
}

func (x *intTranslator) body(asserts []*IExpr) (string, []string) {
	var sb strings.Builder
	var names []string
	for name, w := range x.vars {
		names = append(names, name)
		if w == 0 {
			fmt.Fprintf(&sb, "(declare-const %s Bool)\n", name)
		} else {
			fmt.Fprintf(&sb, "(declare-const %s Int)\n(assert (and (<= 0 %s) (< %s %s)))\n", name, name, name, pow2(w).String())
		}
	}
	defined := map[int]bool{}
	var ref func(e *IExpr) string
	var define func(e *IExpr)
	ref = func(e *IExpr) string {
		switch e.op {
		case "c":
			if e.c.Sign() < 0 {
				return "(- " + new(big.Int).Neg(e.c).String() + ")"
			}
			return e.c.String()
		case "v":
			return e.name
		case "true", "false":
			return e.op
		}
		return fmt.Sprintf("i%d", e.id)
	}
	define = func(e *IExpr) {
		if len(e.args) == 0 || defined[e.id] {
			return
		}
		defined[e.id] = true
		for _, a := range e.args {
			define(a)
		}
		sort := "Int"
		if e.bool {
			sort = "Bool"
		}
		fmt.Fprintf(&sb, "(define-fun i%d () %s (%s", e.id, sort, e.op)
		for _, a := range e.args {
			sb.WriteString(" " + ref(a))
		}
		sb.WriteString("))\n")
	}
	for _, a := range asserts {
		define(a)
		sb.WriteString("(assert " + ref(a) + ")\n")
	}
	return sb.String(), names
}

var intSolvers = []oneShot{
	{"z3-new-int", []string{"z3-new"}, ""},
	{"cvc5-int", []string{"cvc5", "--produce-models"}, "ALL"},
	{"z3-int", []string{"z3"}, ""},
}

// CheckInt tries to decide the conjunction of terms through the integer
// translation. ok=false: translation not applicable or inconclusive.
func (s *Solver) CheckInt(tb *TB, terms []*Term, timeout time.Duration, rng *rand.Rand) (Result, map[string]uint64, bool) {
	x := newIntTranslator(tb, terms)
	var asserts []*IExpr
	for _, t := range terms {
		asserts = append(asserts, x.boolT(t))
	}
	if x.failed != "" {
		s.Stats.IntSkipped++
		if os.Getenv("SYMGO_INTWHY") != "" {
			fmt.Fprintf(os.Stderr, "INT-SKIP: %s\n", x.failed)
		}
		return Unknown, nil, false
	}
	asserts = append(asserts, x.side...)
	if why := x.selfCheck(terms, rng, 24); why != "" {
		s.Stats.IntMismatch++
		fmt.Fprintf(os.Stderr, "INT-TRANSLATION SELF-CHECK FAILED (translation not used): %s\n", why)
		return Unknown, nil, false
	}
	checkModel := func(vals map[string]uint64) bool {
		m := NewModel(vals)
		for _, t := range terms {
			if m.Eval(t) == 0 {
				return false
			}
		}
		return true
	}
	{
		t0 := time.Now()
		body, names := x.body(asserts)
		res, vals, ok := s.intPipeQuery(body, names, int(timeout.Milliseconds()))
		s.Stats.Time += time.Since(t0)
		s.Stats.Queries++
		if ok && res == Unsat {
			s.Stats.Unsat++
			s.Stats.Fallback["z3-new-int-pipe"]++
			return Unsat, nil, true
		}
		if ok && res == Sat {
			if !checkModel(vals) {
				s.Stats.IntMismatch++
				fmt.Fprintf(os.Stderr, "INT-TRANSLATION: sat model does not satisfy the bit-vector terms (ignored)\n")
				return Unknown, nil, false
			}
			s.Stats.Sat++
			s.Stats.Fallback["z3-new-int-pipe"]++
			return Sat, vals, true
		}
		s.Stats.Unknown++
	}
	for _, so := range intSolvers[1:] {
		t0 := time.Now()
		script := x.script(asserts, true, so.logic)
		f, err := os.CreateTemp("", "symgo-i-*.smt2")
		if err != nil {
			panic(err)
		}
		f.WriteString(script)
		f.Close()
		argv := append([]string{}, so.argv...)
		if so.argv[0] == "cvc5" {
			argv = append(argv, fmt.Sprintf("--tlimit=%d", timeout.Milliseconds()))
		} else {
			argv = append(argv, fmt.Sprintf("-T:%d", int(timeout.Seconds())+1))
		}
		argv = append(argv, f.Name())
		out, _ := exec.Command(argv[0], argv[1:]...).CombinedOutput()
		os.Remove(f.Name())
		s.Stats.Time += time.Since(t0)
		s.Stats.Queries++
		txt := string(out)
		first := strings.TrimSpace(strings.SplitN(txt, "\n", 2)[0])
		if strings.HasPrefix(first, "(error") || (first == "sat" && strings.Contains(txt, "(error")) {
			s.Stats.Errors++
			if d := os.Getenv("SYMGO_KEEPQ"); d != "" {
				os.MkdirAll(d, 0o755)
				os.WriteFile(fmt.Sprintf("%s/interror-%s-%d.smt2", d, so.name, time.Now().UnixNano()), []byte(script+"\n; "+txt), 0o644)
			}
			continue
		}
		switch first {
		case "unsat":
			s.Stats.Unsat++
			s.Stats.Fallback[so.name]++
			return Unsat, nil, true
		case "sat":
			rest := ""
			if i := strings.Index(txt, "\n"); i >= 0 {
				rest = txt[i+1:]
			}
			vals := parseValues(rest)
			// the model must satisfy the bit-vector terms under the engine's evaluator
			m := NewModel(vals)
			good := true
			for _, t := range terms {
				if m.Eval(t) == 0 {
					good = false
					break
				}
			}
			if !good {
				s.Stats.IntMismatch++
				fmt.Fprintf(os.Stderr, "INT-TRANSLATION: sat model does not satisfy the bit-vector terms (ignored)\n")
				if d := os.Getenv("SYMGO_KEEPQ"); d != "" {
					os.MkdirAll(d, 0o755)
					var tsb strings.Builder
					for _, t := range terms {
						fmt.Fprintf(&tsb, "; term (eval %d): %s\n", m.Eval(t), t.String())
					}
					os.WriteFile(fmt.Sprintf("%s/intbadmodel-%d.smt2", d, time.Now().UnixNano()), []byte(script+"\n; "+txt+"\n"+tsb.String()), 0o644)
				}
				return Unknown, nil, false
			}
			s.Stats.Sat++
			s.Stats.Fallback[so.name]++
			return Sat, vals, true
		default:
			s.Stats.Unknown++
			if d := os.Getenv("SYMGO_KEEPQ"); d != "" {
				os.MkdirAll(d, 0o755)
				os.WriteFile(fmt.Sprintf("%s/intunknown-%s-%d.smt2", d, so.name, time.Now().UnixNano()), []byte(script), 0o644)
			}
		}
	}
	return Unknown, nil, false
}

// CrossInt gives a second opinion on a hard-arithmetic query: the integer translation decided by z3 4.8.12 in a
// one-shot process under a hard time limit (the bit-vector pipe of the cross-checking solver does not come back from
// wide division chains within minutes). Unknown: no second opinion.
func (s *Solver) CrossInt(tb *TB, terms []*Term, timeout time.Duration) Result {
	x := newIntTranslator(tb, terms)
	var asserts []*IExpr
	for _, t := range terms {
		asserts = append(asserts, x.boolT(t))
	}
	if x.failed != "" {
		return Unknown
	}
	asserts = append(asserts, x.side...)
	script := x.script(asserts, false, "")
	f, err := os.CreateTemp("", "symgo-x-*.smt2")
	if err != nil {
		return Unknown
	}
	f.WriteString(script)
	f.Close()
	defer os.Remove(f.Name())
	ctx, cancel := context.WithTimeout(context.Background(), timeout+3*time.Second)
	defer cancel()
	out, _ := exec.CommandContext(ctx, "z3", fmt.Sprintf("-T:%d", int(timeout.Seconds())), f.Name()).CombinedOutput()
	txt := string(out)
	first := strings.TrimSpace(strings.SplitN(txt, "\n", 2)[0])
	if strings.Contains(txt, "(error") {
		return Unknown
	}
	switch first {
	case "unsat":
		return Unsat
	case "sat":
		return Sat
	}
	return Unknown
}
