package main

import (
	"fmt"
	"go/token"
	"go/types"
	"math"
)

func (in *Interp) binop(op token.Token, xt types.Type, x, y Value, yt types.Type) Value {
	switch a := x.(type) {
	case *Term:
		b, ok := y.(*Term)
		if !ok {
			break
		}
		if a.w == 0 {
			switch op {
			case token.EQL:
				return in.tb.Iff(a, b)
			case token.NEQ:
				return in.tb.Not(in.tb.Iff(a, b))
			case token.AND, token.LAND:
				return in.tb.And(a, b)
			case token.OR, token.LOR:
				return in.tb.Or(a, b)
			}
			panic(unsupported("bool binop " + op.String()))
		}
		return in.intBinop(op, xt, a, b, yt)
	case FloatV:
		b := y.(FloatV)
		f32 := false
		if bt, ok := xt.Underlying().(*types.Basic); ok && bt.Kind() == types.Float32 {
			f32 = true
		}
		rnd := func(f float64) Value {
			if f32 {
				return FloatV(float64(float32(f)))
			}
			return FloatV(f)
		}
		fa, fb := float64(a), float64(b)
		switch op {
		case token.ADD:
			return rnd(fa + fb)
		case token.SUB:
			return rnd(fa - fb)
		case token.MUL:
			return rnd(fa * fb)
		case token.QUO:
			return rnd(fa / fb)
		case token.EQL:
			return in.tb.Bool(fa == fb)
		case token.NEQ:
			return in.tb.Bool(fa != fb)
		case token.LSS:
			return in.tb.Bool(fa < fb)
		case token.LEQ:
			return in.tb.Bool(fa <= fb)
		case token.GTR:
			return in.tb.Bool(fa > fb)
		case token.GEQ:
			return in.tb.Bool(fa >= fb)
		}
	case StrV:
		b := y.(StrV)
		switch op {
		case token.ADD:
			nb := make([]*Term, 0, len(a.b)+len(b.b))
			nb = append(nb, a.b...)
			nb = append(nb, b.b...)
			return StrV{nb}
		case token.EQL:
			return in.strEq(a, b)
		case token.NEQ:
			return in.tb.Not(in.strEq(a, b))
		case token.LSS:
			return in.strLess(a, b, false)
		case token.LEQ:
			return in.strLess(a, b, true)
		case token.GTR:
			return in.strLess(b, a, false)
		case token.GEQ:
			return in.strLess(b, a, true)
		}
	}
	switch op {
	case token.EQL:
		return in.equalValues(x, y, xt)
	case token.NEQ:
		return in.tb.Not(in.equalValues(x, y, xt))
	}
	panic(unsupported(fmt.Sprintf("binop %s on %T,%T", op, x, y)))
}

func (in *Interp) intBinop(op token.Token, xt types.Type, a, b *Term, yt types.Type) Value {
	signed := isSigned(xt)
	tb := in.tb
	switch op {
	case token.ADD:
		return tb.Bin(OpAdd, a, b)
	case token.SUB:
		return tb.Bin(OpSub, a, b)
	case token.MUL:
		return tb.Bin(OpMul, a, b)
	case token.QUO, token.REM:
		z := tb.Eq(b, tb.Const(b.w, 0))
		if in.branch(z) {
			panic(in.rtPanic("integer divide by zero"))
		}
		switch {
		case op == token.QUO && signed:
			return tb.Bin(OpSDiv, a, b)
		case op == token.QUO:
			return tb.Bin(OpUDiv, a, b)
		case signed:
			return tb.Bin(OpSRem, a, b)
		default:
			return tb.Bin(OpURem, a, b)
		}
	case token.AND:
		return tb.Bin(OpAnd, a, b)
	case token.OR:
		return tb.Bin(OpOr, a, b)
	case token.XOR:
		return tb.Bin(OpXor, a, b)
	case token.AND_NOT:
		return tb.Bin(OpAnd, a, tb.BVNot(b))
	case token.SHL, token.SHR:
		// shift count: any integer type; negative signed count panics
		if isSigned(yt) {
			neg := tb.Bin(OpSLt, b, tb.Const(b.w, 0))
			if in.branch(neg) {
				panic(in.rtPanic("negative shift amount"))
			}
		}
		w := a.w
		var cnt *Term
		switch {
		case b.w == w:
			cnt = b
		case b.w < w:
			cnt = tb.ZExt(b, w)
		default:
			// saturate: count >= w behaves like w
			big := tb.Bin(OpULe, tb.Const(b.w, uint64(w)), b)
			cnt = tb.Ite(big, tb.Const(w, uint64(w)), tb.Extract(b, w-1, 0))
		}
		if op == token.SHL {
			return tb.Bin(OpShl, a, cnt)
		}
		if signed {
			return tb.Bin(OpAShr, a, cnt)
		}
		return tb.Bin(OpLShr, a, cnt)
	case token.EQL:
		return tb.Eq(a, b)
	case token.NEQ:
		return tb.Not(tb.Eq(a, b))
	case token.LSS:
		if signed {
			return tb.Bin(OpSLt, a, b)
		}
		return tb.Bin(OpULt, a, b)
	case token.LEQ:
		if signed {
			return tb.Bin(OpSLe, a, b)
		}
		return tb.Bin(OpULe, a, b)
	case token.GTR:
		if signed {
			return tb.Bin(OpSLt, b, a)
		}
		return tb.Bin(OpULt, b, a)
	case token.GEQ:
		if signed {
			return tb.Bin(OpSLe, b, a)
		}
		return tb.Bin(OpULe, b, a)
	}
	panic(unsupported("int binop " + op.String()))
}

// equalValues: Go's == on comparable values, as a Bool term.
func (in *Interp) equalValues(x, y Value, t types.Type) *Term {
	tb := in.tb
	{
		_, xn := x.(nilFunc)
		_, yn := y.(nilFunc)
		if xn || yn {
			return tb.Bool(xn && yn)
		}
	}
	switch a := x.(type) {
	case *Term:
		b := y.(*Term)
		if a.w == 0 {
			return tb.Iff(a, b)
		}
		return tb.Eq(a, b)
	case FloatV:
		return tb.Bool(float64(a) == float64(y.(FloatV)))
	case StrV:
		return in.strEq(a, y.(StrV))
	case PtrV:
		return tb.Bool(a.c == y.(PtrV).c)
	case SliceV:
		b := y.(SliceV)
		// only comparison with nil is legal
		return tb.Bool((a.arr == nil) == (b.arr == nil))
	case *MapObj:
		b, _ := y.(*MapObj)
		return tb.Bool(a == b)
	case *ChanObj:
		b, _ := y.(*ChanObj)
		return tb.Bool(a == b)
	case nilFunc:
		_, ok := y.(nilFunc)
		return tb.Bool(ok)
	case *ClosureV:
		_, ok := y.(nilFunc)
		return tb.Bool(!ok && false)
	case IfaceV:
		b, ok := y.(IfaceV)
		if !ok {
			// comparing interface with concrete value (not produced by SSA)
			return tb.False
		}
		if a.t == nil || b.t == nil {
			return tb.Bool(a.t == nil && b.t == nil)
		}
		if !types.Identical(a.t, b.t) {
			return tb.False
		}
		if !types.Comparable(a.t) {
			panic(&goPanic{rt: "comparing uncomparable type " + a.t.String(), site: in.where(), val: IfaceV{t: in.runtimeErrType(), v: in.strConst("runtime error: comparing uncomparable type")}})
		}
		return in.equalValues(a.v, b.v, a.t)
	case *StructV:
		b := y.(*StructV)
		r := tb.True
		var st *types.Struct
		if t != nil {
			st, _ = t.Underlying().(*types.Struct)
		}
		for i := range a.f {
			var ft types.Type
			if st != nil {
				ft = st.Field(i).Type()
			}
			r = tb.And(r, in.equalValues(a.f[i], b.f[i], ft))
			if r == tb.False {
				return r
			}
		}
		return r
	case *ArrayV:
		b := y.(*ArrayV)
		r := tb.True
		var et types.Type
		if t != nil {
			if at, ok := t.Underlying().(*types.Array); ok {
				et = at.Elem()
			}
		}
		for i := range a.e {
			r = tb.And(r, in.equalValues(a.e[i], b.e[i], et))
			if r == tb.False {
				return r
			}
		}
		return r
	}
	if _, ok := x.(*ssaFuncMarker); ok {
		return tb.False
	}
	switch x.(type) {
	case nil:
		return tb.Bool(y == nil)
	}
	// function values: only nil comparison
	if _, ok := y.(nilFunc); ok {
		return tb.False
	}
	panic(unsupported(fmt.Sprintf("equality on %T", x)))
}

type ssaFuncMarker struct{}

func (in *Interp) convert(v Value, from, to types.Type) Value {
	tb := in.tb
	fu, tu := from.Underlying(), to.Underlying()
	switch a := v.(type) {
	case *Term:
		if a.w == 0 {
			return a
		}
		switch {
		case isInteger(tu):
			w := widthOf(tu)
			if w == a.w {
				return a
			}
			if w < a.w {
				return tb.Extract(a, w-1, 0)
			}
			if isSigned(fu) {
				return tb.SExt(a, w)
			}
			return tb.ZExt(a, w)
		case isFloat(tu):
			if !a.IsConst() {
				panic(unsupported("int->float conversion of a symbolic value"))
			}
			var f float64
			if isSigned(fu) {
				f = float64(sext(a.val, a.w))
			} else {
				f = float64(a.val)
			}
			if tu.(*types.Basic).Kind() == types.Float32 {
				f = float64(float32(f))
			}
			return FloatV(f)
		case isString(tu):
			// string(rune)
			var r *Term
			if isSigned(fu) {
				r = tb.SExt(a, 64)
			} else {
				r = tb.ZExt(a, 64)
			}
			if r.IsConst() {
				rv := int64(r.val)
				if rv < 0 || rv > 0x10FFFF {
					rv = 0xFFFD
				}
				return in.strConst(string(rune(rv)))
			}
			return StrV{in.encodeRune(tb.Extract(r, 31, 0))}
		case tu.String() == "unsafe.Pointer":
			panic(unsupported("uintptr -> unsafe.Pointer"))
		}
	case FloatV:
		switch {
		case isFloat(tu):
			if tu.(*types.Basic).Kind() == types.Float32 {
				return FloatV(float64(float32(float64(a))))
			}
			return a
		case isInteger(tu):
			w := widthOf(tu)
			f := float64(a)
			if isSigned(tu) {
				return tb.Const(w, uint64(int64(f)))
			}
			if f < 0 {
				return tb.Const(w, uint64(int64(f)))
			}
			return tb.Const(w, uint64(f))
		}
	case StrV:
		switch t := tu.(type) {
		case *types.Basic:
			return a
		case *types.Slice:
			if widthOf(t.Elem()) == 8 {
				arr := in.newArr(t.Elem(), len(a.b))
				for i, b := range a.b {
					c := in.elem(arr, i)
					c.v = b
				}
				if len(a.b) == 0 {
					return SliceV{arr: arr}
				}
				return SliceV{arr: arr, len: len(a.b), cap: len(a.b)}
			}
			if widthOf(t.Elem()) == 32 {
				var rs []*Term
				pos := 0
				for pos < len(a.b) {
					r, sz := in.decodeRune(StrV{a.b[pos:]})
					rs = append(rs, r)
					pos += sz
				}
				arr := in.newArr(t.Elem(), len(rs))
				for i, r := range rs {
					in.elem(arr, i).v = r
				}
				return SliceV{arr: arr, len: len(rs), cap: len(rs)}
			}
		}
	case SliceV:
		if isString(tu) {
			st := fu.(*types.Slice)
			if widthOf(st.Elem()) == 8 {
				b := make([]*Term, a.len)
				for i := 0; i < a.len; i++ {
					b[i] = in.load(in.elem(a.arr, a.off+i)).(*Term)
				}
				return StrV{b}
			}
			if widthOf(st.Elem()) == 32 {
				var out []*Term
				for i := 0; i < a.len; i++ {
					out = append(out, in.encodeRune(in.load(in.elem(a.arr, a.off+i)).(*Term))...)
				}
				return StrV{out}
			}
		}
		if _, ok := tu.(*types.Slice); ok {
			return a
		}
		if pt, ok := tu.(*types.Pointer); ok {
			// slice to array pointer
			at := pt.Elem().Underlying().(*types.Array)
			n := int(at.Len())
			if a.len < n {
				panic(in.rtPanic("cannot convert slice to array pointer: length too short"))
			}
			return PtrV{c: &Cell{kind: 2, arr: a.arr, off: a.off, n: n, t: at, born: a.arr.born}}
		}
	case PtrV:
		// pointer <-> unsafe.Pointer <-> pointer
		if pt, ok := tu.(*types.Pointer); ok {
			if a.c == nil {
				return a
			}
			if types.Identical(a.c.t.Underlying(), pt.Elem().Underlying()) {
				return a
			}
			// pointer to first field / element reinterpretation is not supported
			panic(unsupported(fmt.Sprintf("unsafe pointer cast from *%s to %s", a.c.t, to)))
		}
		if b, ok := tu.(*types.Basic); ok && b.Kind() == types.UnsafePointer {
			return a
		}
		if isInteger(tu) {
			if a.c == nil {
				return tb.Const(64, 0)
			}
			panic(unsupported("pointer -> uintptr"))
		}
	case ComplexV:
		return a
	}
	panic(unsupported(fmt.Sprintf("convert %T from %s to %s", v, from, to)))
}

var _ = math.MaxInt64
