package main

// Solver back ends: one long-lived `z3 -in` pipe per worker for path
// feasibility and assertion queries (push/pop aligned with the path
// condition), and one-shot fall-backs (cvc5 --solve-bv-as-int=sum, z3-new)
// for assertion queries the pipe answers `unknown` to.

import (
	"bufio"
	"bytes"
	"fmt"
	"io"
	"os"
	"os/exec"
	"strconv"
	"strings"
	"time"
)

type Result int

const (
	Unsat Result = iota
	Sat
	Unknown
)

func (r Result) String() string { return [...]string{"unsat", "sat", "unknown"}[r] }

type SolverStats struct {
	Queries     int
	Sat         int
	Unsat       int
	Unknown     int
	Errors      int
	Time        time.Duration
	Fallback    map[string]int
	MaxQuery    time.Duration
	IntSkipped  int
	IntMismatch int
}

type Solver struct {
	bin        string
	args       []string
	cmd        *exec.Cmd
	in         io.WriteCloser
	out        *bufio.Reader
	pr         *Printer
	stack      []*Term // asserted path-condition terms, one push level each
	Stats      SolverStats
	timeout    int // ms for the pipe solver
	log        io.Writer
	curTimeout int
	hung       bool
	// persistent pipe for integer-translation queries
	icmd *exec.Cmd
	iin  io.WriteCloser
	iout *bufio.Reader
}

func NewSolver(timeoutMS int) *Solver {
	s := &Solver{bin: "z3-new", timeout: timeoutMS}
	if b := os.Getenv("SYMGO_PIPE_SOLVER"); b != "" {
		s.bin = b
	}
	s.Stats.Fallback = map[string]int{}
	if p := os.Getenv("SYMGO_SMTLOG"); p != "" {
		f, _ := os.Create(fmt.Sprintf("%s.%d", p, time.Now().UnixNano()))
		s.log = f
	}
	s.start()
	return s
}

// NewSolverBin starts a pipe on another solver binary (the thorough tier's cross-checking solver).
func NewSolverBin(bin string, timeoutMS int) *Solver {
	s := &Solver{bin: bin, timeout: timeoutMS}
	s.Stats.Fallback = map[string]int{}
	s.start()
	return s
}

func (s *Solver) start() {
	s.args = []string{"-in", fmt.Sprintf("-t:%d", s.timeout)}
	s.cmd = exec.Command(s.bin, s.args...)
	var err error
	s.in, err = s.cmd.StdinPipe()
	if err != nil {
		panic(err)
	}
	op, err := s.cmd.StdoutPipe()
	if err != nil {
		panic(err)
	}
	s.cmd.Stderr = os.Stderr
	if err := s.cmd.Start(); err != nil {
		panic(err)
	}
	s.out = bufio.NewReaderSize(op, 1<<16)
	s.pr = NewPrinter()
	s.stack = nil
	s.send("(set-option :global-declarations true)\n(set-option :produce-models true)\n")
}

func (s *Solver) intPipeStart() bool {
	if s.icmd != nil {
		return true
	}
	cmd := exec.Command("z3-new", "-in")
	in, err := cmd.StdinPipe()
	if err != nil {
		return false
	}
	out, err := cmd.StdoutPipe()
	if err != nil {
		return false
	}
	cmd.Stderr = os.Stderr
	if err := cmd.Start(); err != nil {
		return false
	}
	s.icmd, s.iin, s.iout = cmd, in, bufio.NewReaderSize(out, 1<<16)
	io.WriteString(s.iin, "(set-option :produce-models true)\n")
	return true
}

func (s *Solver) intPipeClose() {
	if s.icmd != nil {
		s.iin.Close()
		s.icmd.Process.Kill()
		s.icmd.Wait()
		s.icmd = nil
	}
}

// intPipeQuery runs a script body (declarations, definitions, assertions)
// inside push/pop on the persistent integer pipe.
func (s *Solver) intPipeQuery(body string, names []string, timeoutMS int) (Result, map[string]uint64, bool) {
	if !s.intPipeStart() {
		return Unknown, nil, false
	}
	var sb strings.Builder
	fmt.Fprintf(&sb, "(push 1)\n(set-option :timeout %d)\n%s(check-sat)\n", timeoutMS, body)
	if _, err := io.WriteString(s.iin, sb.String()); err != nil {
		s.intPipeClose()
		return Unknown, nil, false
	}
	type lineRes struct {
		line string
		err  error
	}
	ch := make(chan lineRes, 1)
	rd := s.iout
	go func() {
		l, err := rd.ReadString('\n')
		ch <- lineRes{l, err}
	}()
	var line string
	select {
	case lr := <-ch:
		if lr.err != nil {
			s.intPipeClose()
			return Unknown, nil, false
		}
		line = lr.line
	case <-time.After(time.Duration(timeoutMS)*time.Millisecond + 3*time.Second):
		// the soft timeout was not honoured: kill the process (the reader goroutine ends with it)
		s.intPipeClose()
		return Unknown, nil, false
	}
	ans := strings.TrimSpace(line)
	var res Result = Unknown
	var vals map[string]uint64
	switch ans {
	case "unsat":
		res = Unsat
	case "sat":
		res = Sat
		if len(names) > 0 {
			io.WriteString(s.iin, "(get-value ("+strings.Join(names, " ")+"))\n")
			var buf bytes.Buffer
			depth, started := 0, false
			for {
				l, err := s.iout.ReadString('\n')
				if err != nil {
					s.intPipeClose()
					return Unknown, nil, false
				}
				buf.WriteString(l)
				for _, ch := range l {
					if ch == '(' {
						depth++
						started = true
					} else if ch == ')' {
						depth--
					}
				}
				if started && depth <= 0 {
					break
				}
			}
			if strings.Contains(buf.String(), "(error") {
				s.intPipeClose()
				return Unknown, nil, false
			}
			vals = parseValues(buf.String())
		} else {
			vals = map[string]uint64{}
		}
	default:
		if strings.HasPrefix(ans, "(error") {
			s.Stats.Errors++
			s.intPipeClose()
			return Unknown, nil, false
		}
	}
	io.WriteString(s.iin, "(pop 1)\n")
	return res, vals, true
}

func (s *Solver) Close() {
	s.intPipeClose()
	if s.cmd != nil {
		s.in.Close()
		s.cmd.Process.Kill()
		s.cmd.Wait()
		s.cmd = nil
	}
}

func (s *Solver) restart() {
	s.Close()
	s.start()
}

func (s *Solver) send(txt string) {
	if s.log != nil {
		io.WriteString(s.log, txt)
	}
	if _, err := io.WriteString(s.in, txt); err != nil {
		panic(fmt.Sprintf("solver pipe write: %v", err))
	}
}

func (s *Solver) readLine() string {
	type lineRes struct {
		line string
		err  error
	}
	ch := make(chan lineRes, 1)
	rd := s.out
	go func() {
		l, err := rd.ReadString('\n')
		ch <- lineRes{l, err}
	}()
	limit := time.Duration(s.curTimeout)*time.Millisecond + 5*time.Second
	select {
	case lr := <-ch:
		if lr.err != nil {
			panic(fmt.Sprintf("solver pipe read: %v (%q)", lr.err, lr.line))
		}
		return strings.TrimSpace(lr.line)
	case <-time.After(limit):
		// soft timeout not honoured: restart the solver, answer unknown
		s.hung = true
		s.cmd.Process.Kill()
		<-ch
		return "unknown"
	}
}

// sync makes the solver's assertion stack equal to pc.
func (s *Solver) sync(pc []*Term) {
	common := 0
	for common < len(pc) && common < len(s.stack) && pc[common] == s.stack[common] {
		common++
	}
	if n := len(s.stack) - common; n > 0 {
		s.send(fmt.Sprintf("(pop %d)\n", n))
		s.stack = s.stack[:common]
	}
	for _, t := range pc[common:] {
		s.pr.Define(t)
		s.send(s.pr.Take())
		s.send("(push 1)\n(assert " + s.pr.ref(t) + ")\n")
		s.stack = append(s.stack, t)
	}
}

// CheckSet decides the conjunction of terms (no persistent assertion stack).
func (s *Solver) CheckSet(terms []*Term, vars []*Term) (Result, map[string]uint64) {
	return s.Check(nil, terms, vars)
}

// CheckSetTimeout is CheckSet under a per-query soft timeout (ms).
func (s *Solver) CheckSetTimeout(terms []*Term, vars []*Term, ms int) (Result, map[string]uint64) {
	s.send(fmt.Sprintf("(set-option :timeout %d)\n", ms))
	s.curTimeout = ms
	r, v := s.Check(nil, terms, vars)
	s.curTimeout = s.timeout
	if s.cmd != nil {
		s.send(fmt.Sprintf("(set-option :timeout %d)\n", s.timeout))
	}
	return r, v
}

// Check decides pc ∧ extra (extra may be nil). When the answer is sat and
// vars is non-empty a model restricted to vars is returned.
func (s *Solver) Check(pc []*Term, extra []*Term, vars []*Term) (Result, map[string]uint64) {
	t0 := time.Now()
	defer func() {
		d := time.Since(t0)
		s.Stats.Time += d
		if d > s.Stats.MaxQuery {
			s.Stats.MaxQuery = d
		}
	}()
	s.Stats.Queries++
	s.sync(pc)
	for _, e := range extra {
		s.pr.Define(e)
	}
	s.send(s.pr.Take())
	var sb strings.Builder
	sb.WriteString("(push 1)\n")
	for _, e := range extra {
		sb.WriteString("(assert " + s.pr.ref(e) + ")\n")
	}
	sb.WriteString("(check-sat)\n")
	s.send(sb.String())
	if s.curTimeout == 0 {
		s.curTimeout = s.timeout
	}
	ans := s.readLine()
	if s.hung {
		s.hung = false
		s.Stats.Unknown++
		s.cmd.Wait()
		s.cmd = nil
		s.start()
		return Unknown, nil
	}
	for strings.HasPrefix(ans, "(error") || ans == "" {
		if strings.HasPrefix(ans, "(error") {
			s.Stats.Errors++
			fmt.Fprintf(os.Stderr, "solver error: %s\n", ans)
			s.send("(pop 1)\n")
			s.Stats.Unknown++
			// resynchronise from scratch: state may be inconsistent
			s.restart()
			return Unknown, nil
		}
		ans = s.readLine()
	}
	var res Result
	var model map[string]uint64
	switch ans {
	case "sat":
		res = Sat
		s.Stats.Sat++
		if len(vars) > 0 {
			model = s.getValues(vars)
		} else {
			model = map[string]uint64{}
		}
	case "unsat":
		res = Unsat
		s.Stats.Unsat++
	default:
		res = Unknown
		s.Stats.Unknown++
	}
	s.send("(pop 1)\n")
	return res, model
}

func (s *Solver) getValues(vars []*Term) map[string]uint64 {
	var sb strings.Builder
	sb.WriteString("(get-value (")
	for _, v := range vars {
		s.pr.Define(v)
		sb.WriteString(v.name)
		sb.WriteString(" ")
	}
	sb.WriteString("))\n")
	s.send(s.pr.Take())
	s.send(sb.String())
	// read a balanced s-expression
	var buf bytes.Buffer
	depth := 0
	started := false
	for {
		line, err := s.out.ReadString('\n')
		if err != nil {
			panic("solver pipe read in get-value: " + err.Error())
		}
		buf.WriteString(line)
		for _, ch := range line {
			if ch == '(' {
				depth++
				started = true
			} else if ch == ')' {
				depth--
			}
		}
		if started && depth <= 0 {
			break
		}
	}
	return parseValues(buf.String())
}

// parseValues parses ((name #x..) (name true) ...)
func parseValues(txt string) map[string]uint64 {
	m := map[string]uint64{}
	toks := tokenize(txt)
	for i := 0; i+1 < len(toks); i++ {
		if toks[i] == "(" && i+3 < len(toks) && toks[i+1] != "(" && toks[i+3] == ")" {
			name, val := toks[i+1], toks[i+2]
			if v, ok := parseLit(val); ok {
				m[name] = v
			}
			i += 3
		} else if toks[i] == "(" && i+6 < len(toks) && toks[i+1] != "(" && toks[i+2] == "(" && toks[i+3] == "_" {
			// (name (_ bvN w))
			name := toks[i+1]
			if strings.HasPrefix(toks[i+4], "bv") {
				v, err := strconv.ParseUint(toks[i+4][2:], 10, 64)
				if err == nil {
					m[name] = v
				}
			}
			i += 6
		}
	}
	return m
}

func parseLit(s string) (uint64, bool) {
	switch {
	case s == "true":
		return 1, true
	case s == "false":
		return 0, true
	case strings.HasPrefix(s, "#x"):
		v, err := strconv.ParseUint(s[2:], 16, 64)
		return v, err == nil
	case strings.HasPrefix(s, "#b"):
		v, err := strconv.ParseUint(s[2:], 2, 64)
		return v, err == nil
	case len(s) > 0 && s[0] >= '0' && s[0] <= '9':
		v, err := strconv.ParseUint(s, 10, 64)
		return v, err == nil
	}
	return 0, false
}

func tokenize(s string) []string {
	var out []string
	cur := strings.Builder{}
	flush := func() {
		if cur.Len() > 0 {
			out = append(out, cur.String())
			cur.Reset()
		}
	}
	for _, ch := range s {
		switch ch {
		case '(', ')':
			flush()
			out = append(out, string(ch))
		case ' ', '\n', '\t', '\r':
			flush()
		default:
			cur.WriteRune(ch)
		}
	}
	flush()
	return out
}

// Script renders a standalone SMT-LIB2 script deciding pc ∧ extra.
func Script(pc []*Term, extra []*Term, vars []*Term, logic string) string {
	p := NewPrinter()
	var sb strings.Builder
	if logic != "" {
		sb.WriteString("(set-logic " + logic + ")\n")
	}
	sb.WriteString("(set-option :produce-models true)\n")
	all := append(append([]*Term{}, pc...), extra...)
	for _, t := range all {
		p.Define(t)
	}
	for _, v := range vars {
		p.Define(v)
	}
	sb.WriteString(p.Take())
	for _, t := range all {
		sb.WriteString("(assert " + p.ref(t) + ")\n")
	}
	sb.WriteString("(check-sat)\n")
	if len(vars) > 0 {
		sb.WriteString("(get-value (")
		for _, v := range vars {
			sb.WriteString(v.name + " ")
		}
		sb.WriteString("))\n")
	}
	return sb.String()
}

type oneShot struct {
	name  string
	argv  []string
	logic string
}

var fallbackSolvers = []oneShot{
	{"cvc5-bv-as-int", []string{"cvc5", "--solve-bv-as-int=sum", "--produce-models"}, "ALL"},
	{"z3-new", []string{"z3-new"}, ""},
	{"z3", []string{"z3"}, ""},
}

// CheckOneShot runs the query on the fall-back solvers in order until one
// answers sat or unsat.
func (s *Solver) CheckOneShot(pc []*Term, extra []*Term, vars []*Term, timeout time.Duration, only string) (Result, map[string]uint64, string) {
	for _, fb := range fallbackSolvers {
		if only != "" && fb.name != only {
			continue
		}
		t0 := time.Now()
		script := Script(pc, extra, vars, fb.logic)
		f, err := os.CreateTemp("", "symgo-q-*.smt2")
		if err != nil {
			panic(err)
		}
		f.WriteString(script)
		f.Close()
		argv := append([]string{}, fb.argv...)
		switch fb.argv[0] {
		case "cvc5":
			argv = append(argv, fmt.Sprintf("--tlimit=%d", timeout.Milliseconds()))
		default:
			argv = append(argv, fmt.Sprintf("-T:%d", int(timeout.Seconds())+1))
		}
		argv = append(argv, f.Name())
		cmd := exec.Command(argv[0], argv[1:]...)
		out, _ := cmd.CombinedOutput()
		os.Remove(f.Name())
		s.Stats.Time += time.Since(t0)
		s.Stats.Queries++
		txt := string(out)
		first := strings.TrimSpace(strings.SplitN(txt, "\n", 2)[0])
		// an error line before the verdict makes it inconclusive; after an
		// `unsat` verdict the only error possible is the refused get-value.
		if strings.HasPrefix(first, "(error") || (first == "sat" && strings.Contains(txt, "(error")) {
			s.Stats.Errors++
			if d := os.Getenv("SYMGO_KEEPQ"); d != "" {
				os.MkdirAll(d, 0o755)
				os.WriteFile(fmt.Sprintf("%s/error-%s-%d.smt2", d, fb.name, time.Now().UnixNano()), []byte(script+"\n; "+strings.ReplaceAll(txt, "\n", "\n; ")), 0o644)
			}
			continue
		}
		switch first {
		case "unsat":
			s.Stats.Unsat++
			s.Stats.Fallback[fb.name]++
			return Unsat, nil, fb.name
		case "sat":
			s.Stats.Sat++
			s.Stats.Fallback[fb.name]++
			rest := ""
			if i := strings.Index(txt, "\n"); i >= 0 {
				rest = txt[i+1:]
			}
			return Sat, parseValues(rest), fb.name
		default:
			s.Stats.Unknown++
			if d := os.Getenv("SYMGO_KEEPQ"); d != "" {
				os.MkdirAll(d, 0o755)
				os.WriteFile(fmt.Sprintf("%s/unknown-%s-%d.smt2", d, fb.name, time.Now().UnixNano()), []byte(script), 0o644)
			}
		}
	}
	return Unknown, nil, ""
}
