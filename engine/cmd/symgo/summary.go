package main

// Merged summaries of pure leaf functions: a function over scalar
// integers/booleans with an acyclic CFG and no side effects is if-converted
// into one term (block guards, phi -> ite) so that calling it with symbolic
// arguments does not fork. Exact, not an abstraction.

import (
	"go/token"
	"go/types"

	"golang.org/x/tools/go/ssa"
)

type summaryInfo struct {
	ok    bool
	order []*ssa.BasicBlock // reverse post-order
}

func scalarType(t types.Type) bool {
	b, ok := t.Underlying().(*types.Basic)
	return ok && (b.Info()&types.IsInteger != 0 || b.Info()&types.IsBoolean != 0)
}

func (in *Interp) summarizable(fn *ssa.Function) bool {
	if si, ok := in.summ[fn]; ok {
		return si.ok
	}
	si := &summaryInfo{}
	in.summ[fn] = si // provisional (recursion -> false)
	si.ok = in.analyzeSummary(fn, si)
	return si.ok
}

func (in *Interp) analyzeSummary(fn *ssa.Function, si *summaryInfo) bool {
	if len(fn.Blocks) == 0 || len(fn.Blocks) > 400 || fn.Recover != nil || len(fn.FreeVars) > 0 {
		return false
	}
	sig := fn.Signature
	for i := 0; i < sig.Params().Len(); i++ {
		if !scalarType(sig.Params().At(i).Type()) {
			return false
		}
	}
	if sig.Recv() != nil && !scalarType(sig.Recv().Type()) {
		return false
	}
	if sig.Results().Len() < 1 || sig.Results().Len() > 4 {
		return false
	}
	for i := 0; i < sig.Results().Len(); i++ {
		if !scalarType(sig.Results().At(i).Type()) {
			return false
		}
	}
	n := 0
	for _, b := range fn.Blocks {
		for _, instr := range b.Instrs {
			n++
			switch x := instr.(type) {
			case *ssa.BinOp:
				switch x.Op {
				case token.QUO, token.REM:
					return false
				case token.SHL, token.SHR:
					if isSigned(x.Y.Type()) {
						if _, isc := x.Y.(*ssa.Const); !isc {
							return false
						}
					}
				}
				if !scalarType(x.X.Type()) {
					return false
				}
			case *ssa.UnOp:
				if x.Op == token.MUL || x.Op == token.ARROW {
					return false
				}
			case *ssa.Convert:
				if !scalarType(x.Type()) || !scalarType(x.X.Type()) {
					return false
				}
			case *ssa.ChangeType:
				if !scalarType(x.Type()) {
					return false
				}
			case *ssa.Extract:
			case *ssa.Phi, *ssa.If, *ssa.Jump, *ssa.Return, *ssa.DebugRef:
			case *ssa.Call:
				callee := x.Call.StaticCallee()
				if callee == nil || x.Call.IsInvoke() {
					return false
				}
				if in.lookupModel(callee) != nil {
					return false
				}
				if !in.summarizable(callee) {
					return false
				}
			default:
				return false
			}
		}
	}
	if n > 3000 {
		return false
	}
	// acyclic? compute reverse post-order and check for back edges
	state := map[*ssa.BasicBlock]int{}
	var post []*ssa.BasicBlock
	cyclic := false
	var dfs func(b *ssa.BasicBlock)
	dfs = func(b *ssa.BasicBlock) {
		state[b] = 1
		for _, s := range b.Succs {
			switch state[s] {
			case 0:
				dfs(s)
			case 1:
				cyclic = true
			}
		}
		state[b] = 2
		post = append(post, b)
	}
	dfs(fn.Blocks[0])
	if cyclic {
		return false
	}
	for i := len(post) - 1; i >= 0; i-- {
		si.order = append(si.order, post[i])
	}
	return true
}

func (in *Interp) applySummary(fn *ssa.Function, args []Value) (Value, bool) {
	si := in.summ[fn]
	tb := in.tb
	in.cs.Summaries[fn.String()]++
	in.cs.FuncsSym[fn.String()] = true
	env := map[ssa.Value]Value{}
	for i, p := range fn.Params {
		env[p] = args[i]
	}
	get := func(v ssa.Value) Value {
		if c, ok := v.(*ssa.Const); ok {
			return in.constVal(c)
		}
		return env[v]
	}
	type edge struct{ from, to *ssa.BasicBlock }
	edgeG := map[edge]*Term{}
	guard := map[*ssa.BasicBlock]*Term{fn.Blocks[0]: tb.True}
	var result []*Term
	for _, b := range si.order {
		g, ok := guard[b]
		if !ok {
			g = tb.False
			for _, p := range b.Preds {
				if eg, ok := edgeG[edge{p, b}]; ok {
					g = tb.Or(g, eg)
				}
			}
			guard[b] = g
		}
		for _, instr := range b.Instrs {
			switch x := instr.(type) {
			case *ssa.Phi:
				var r *Term
				for i := len(b.Preds) - 1; i >= 0; i-- {
					eg, ok := edgeG[edge{b.Preds[i], b}]
					if !ok {
						continue
					}
					v := get(x.Edges[i]).(*Term)
					if r == nil {
						r = v
					} else {
						r = tb.Ite(eg, v, r)
					}
				}
				env[x] = r
			case *ssa.BinOp:
				env[x] = in.binop(x.Op, x.X.Type(), get(x.X), get(x.Y), x.Y.Type())
			case *ssa.UnOp:
				v := get(x.X).(*Term)
				switch x.Op {
				case token.NOT:
					env[x] = tb.Not(v)
				case token.SUB:
					env[x] = tb.Neg(v)
				case token.XOR:
					env[x] = tb.BVNot(v)
				}
			case *ssa.Convert:
				env[x] = in.convert(get(x.X), x.X.Type(), x.Type())
			case *ssa.ChangeType:
				env[x] = get(x.X)
			case *ssa.Extract:
				env[x] = get(x.Tuple).(TupleV)[x.Index]
			case *ssa.Call:
				callee := x.Call.StaticCallee()
				cargs := make([]Value, len(x.Call.Args))
				for i, a := range x.Call.Args {
					cargs[i] = get(a)
				}
				if anySymbolic(cargs) {
					v, _ := in.applySummary(callee, cargs)
					env[x] = v
				} else {
					env[x] = in.callFunction(callee, cargs, nil)
				}
			case *ssa.If:
				c := get(x.Cond).(*Term)
				edgeG[edge{b, b.Succs[0]}] = tb.And(g, c)
				edgeG[edge{b, b.Succs[1]}] = tb.And(g, tb.Not(c))
			case *ssa.Jump:
				edgeG[edge{b, b.Succs[0]}] = g
			case *ssa.Return:
				if result == nil {
					result = make([]*Term, len(x.Results))
					for i, r := range x.Results {
						result[i] = get(r).(*Term)
					}
				} else {
					for i, r := range x.Results {
						result[i] = tb.Ite(g, get(r).(*Term), result[i])
					}
				}
			}
		}
	}
	if result == nil {
		return nil, false
	}
	if len(result) == 1 {
		return result[0], true
	}
	tv := make(TupleV, len(result))
	for i, r := range result {
		tv[i] = r
	}
	return tv, true
}
