package main

// Hash-consed bit-vector / boolean term DAG with constant folding, a concrete
// evaluator and an SMT-LIB2 printer.  Width 0 means Bool; widths 1..64 are
// bit-vectors.  All Go integer arithmetic is mapped onto these with Go's
// wrap-around semantics.

import (
	"fmt"
	"math/bits"
	"strings"
)

type Op uint8

const (
	OpConst Op = iota
	OpVar
	OpAdd
	OpSub
	OpMul
	OpUDiv
	OpSDiv
	OpURem
	OpSRem
	OpAnd
	OpOr
	OpXor
	OpShl
	OpLShr
	OpAShr
	OpBVNot
	OpNeg
	OpEq // bv or bool equality -> bool
	OpULt
	OpULe
	OpSLt
	OpSLe
	OpBAnd
	OpBOr
	OpBNot
	OpIte
	OpExtract // val = hi<<8 | lo
	OpConcat
	OpZExt
	OpSExt
)

var opNames = [...]string{"const", "var", "bvadd", "bvsub", "bvmul", "bvudiv", "bvsdiv", "bvurem", "bvsrem",
	"bvand", "bvor", "bvxor", "bvshl", "bvlshr", "bvashr", "bvnot", "bvneg", "=", "bvult", "bvule", "bvslt", "bvsle",
	"and", "or", "not", "ite", "extract", "concat", "zero_extend", "sign_extend"}

type Term struct {
	op      Op
	w       int // 0 = Bool
	a, b, c *Term
	val     uint64
	name    string
	id      int
}

type termKey struct {
	op      Op
	w       int
	a, b, c int
	val     uint64
	name    string
}

// TB is a term bank (one per worker; not shared between goroutines).
type TB struct {
	tab       map[termKey]*Term
	nextID    int
	True      *Term
	False     *Term
	nvars     int
	varsMemo  map[int][]int
	varTerm   map[int]*Term
	rangeMemo map[int]urange
}

func NewTB() *TB {
	tb := &TB{tab: map[termKey]*Term{}, varsMemo: map[int][]int{}, varTerm: map[int]*Term{}, rangeMemo: map[int]urange{}}
	tb.True = tb.mk(OpConst, 0, nil, nil, nil, 1, "")
	tb.False = tb.mk(OpConst, 0, nil, nil, nil, 0, "")
	return tb
}

func tid(t *Term) int {
	if t == nil {
		return -1
	}
	return t.id
}

func (tb *TB) mk(op Op, w int, a, b, c *Term, val uint64, name string) *Term {
	k := termKey{op, w, tid(a), tid(b), tid(c), val, name}
	if t, ok := tb.tab[k]; ok {
		return t
	}
	t := &Term{op: op, w: w, a: a, b: b, c: c, val: val, name: name, id: tb.nextID}
	tb.nextID++
	tb.tab[k] = t
	return t
}

func mask(w int) uint64 {
	if w >= 64 {
		return ^uint64(0)
	}
	return (uint64(1) << uint(w)) - 1
}

func sext(v uint64, w int) int64 {
	if w >= 64 {
		return int64(v)
	}
	sh := uint(64 - w)
	return int64(v<<sh) >> sh
}

func (t *Term) IsConst() bool { return t.op == OpConst }
func (t *Term) IsBool() bool  { return t.w == 0 }

func (tb *TB) Const(w int, v uint64) *Term {
	if w == 0 {
		if v != 0 {
			return tb.True
		}
		return tb.False
	}
	return tb.mk(OpConst, w, nil, nil, nil, v&mask(w), "")
}

func (tb *TB) Bool(b bool) *Term {
	if b {
		return tb.True
	}
	return tb.False
}

// Var creates a named variable. Names must be unique per (name,width).
func (tb *TB) Var(w int, name string) *Term {
	return tb.mk(OpVar, w, nil, nil, nil, 0, name)
}

func evalBin(op Op, w int, x, y uint64) uint64 {
	m := mask(w)
	switch op {
	case OpAdd:
		return (x + y) & m
	case OpSub:
		return (x - y) & m
	case OpMul:
		return (x * y) & m
	case OpUDiv:
		if y == 0 {
			return m
		}
		return (x / y) & m
	case OpURem:
		if y == 0 {
			return x
		}
		return (x % y) & m
	case OpSDiv:
		sx, sy := sext(x, w), sext(y, w)
		if sy == 0 {
			if sx < 0 {
				return 1
			}
			return m
		}
		if sy == -1 {
			return uint64(-sx) & m
		}
		return uint64(sx/sy) & m
	case OpSRem:
		sx, sy := sext(x, w), sext(y, w)
		if sy == 0 {
			return x
		}
		if sy == -1 {
			return 0
		}
		return uint64(sx%sy) & m
	case OpAnd:
		return x & y
	case OpOr:
		return x | y
	case OpXor:
		return x ^ y
	case OpShl:
		if y >= uint64(w) {
			return 0
		}
		return (x << y) & m
	case OpLShr:
		if y >= uint64(w) {
			return 0
		}
		return (x >> y) & m
	case OpAShr:
		sx := sext(x, w)
		if y >= uint64(w) {
			if sx < 0 {
				return m
			}
			return 0
		}
		return uint64(sx>>y) & m
	case OpEq:
		return b2u(x == y)
	case OpULt:
		return b2u(x < y)
	case OpULe:
		return b2u(x <= y)
	case OpSLt:
		return b2u(sext(x, w) < sext(y, w))
	case OpSLe:
		return b2u(sext(x, w) <= sext(y, w))
	}
	panic("evalBin: bad op")
}

func b2u(b bool) uint64 {
	if b {
		return 1
	}
	return 0
}

// Bin builds a binary bit-vector operation (result width = operand width, or
// Bool for comparisons).
func (tb *TB) Bin(op Op, x, y *Term) *Term {
	if x.w != y.w {
		panic(fmt.Sprintf("Bin %s: width mismatch %d vs %d", opNames[op], x.w, y.w))
	}
	w := x.w
	rw := w
	switch op {
	case OpEq, OpULt, OpULe, OpSLt, OpSLe:
		rw = 0
	}
	if w == 0 {
		// boolean equality only
		if op != OpEq {
			panic("Bin on bools: " + opNames[op])
		}
		return tb.Iff(x, y)
	}
	if x.IsConst() && y.IsConst() {
		return tb.Const(rw, evalBin(op, w, x.val, y.val))
	}
	// normalise constant to the right for commutative ops
	switch op {
	case OpAdd, OpMul, OpAnd, OpOr, OpXor, OpEq:
		if x.IsConst() {
			x, y = y, x
		}
	}
	if op == OpLShr && y.IsConst() {
		k := int(y.val)
		switch {
		case y.val >= uint64(w):
			return tb.Const(w, 0)
		case k == 0:
			return x
		case x.op == OpConcat && k >= x.b.w:
			// the low field is shifted out entirely: what remains is the high field
			return tb.Bin(OpLShr, tb.ZExt(x.a, w), tb.Const(w, uint64(k-x.b.w)))
		case x.op == OpZExt && k >= x.a.w:
			return tb.Const(w, 0)
		}
	}
	switch op {
	case OpURem:
		if y.IsConst() && y.val != 0 && y.val&(y.val-1) == 0 {
			return tb.Bin(OpAnd, x, tb.Const(w, y.val-1))
		}
	case OpUDiv:
		if y.IsConst() && y.val != 0 && y.val&(y.val-1) == 0 {
			return tb.Bin(OpLShr, x, tb.Const(w, uint64(bits.TrailingZeros64(y.val))))
		}
	case OpAdd:
		if y.IsConst() && y.val == 0 {
			return x
		}
		// (x + c1) + c2
		if y.IsConst() && x.op == OpAdd && x.b.IsConst() {
			return tb.Bin(OpAdd, x.a, tb.Const(w, x.b.val+y.val))
		}
	case OpSub:
		if y.IsConst() && y.val == 0 {
			return x
		}
		if x == y {
			return tb.Const(w, 0)
		}
		if y.IsConst() {
			return tb.Bin(OpAdd, x, tb.Const(w, -y.val))
		}
	case OpMul:
		if y.IsConst() && y.val == 0 {
			return y
		}
		if y.IsConst() && y.val == 1 {
			return x
		}
		if y.IsConst() && y.val&(y.val-1) == 0 {
			return tb.Bin(OpShl, x, tb.Const(w, uint64(bits.TrailingZeros64(y.val))))
		}
	case OpAnd:
		if y.IsConst() && y.val == 0 {
			return y
		}
		if y.IsConst() && y.val == mask(w) {
			return x
		}
		if x == y {
			return x
		}
	case OpOr:
		if y.IsConst() && y.val == 0 {
			return x
		}
		if y.IsConst() && y.val == mask(w) {
			return y
		}
		if x == y {
			return x
		}
	case OpXor:
		if y.IsConst() && y.val == 0 {
			return x
		}
		if x == y {
			return tb.Const(w, 0)
		}
	case OpShl, OpLShr, OpAShr:
		if y.IsConst() && y.val == 0 {
			return x
		}
	case OpEq:
		if x == y {
			return tb.True
		}
		// zext(a) == const  ->  a == const' or false
		if y.IsConst() && (x.op == OpZExt) {
			if y.val > mask(x.a.w) {
				return tb.False
			}
			return tb.Bin(OpEq, x.a, tb.Const(x.a.w, y.val))
		}
		// ite(c, k1, k2) == k  with constants
		if y.IsConst() && x.op == OpIte && x.b.IsConst() && x.c.IsConst() {
			e1, e2 := x.b.val == y.val, x.c.val == y.val
			switch {
			case e1 && e2:
				return tb.True
			case e1:
				return x.a
			case e2:
				return tb.Not(x.a)
			default:
				return tb.False
			}
		}
		// (x + c1) == c2 -> x == c2-c1
		if y.IsConst() && x.op == OpAdd && x.b.IsConst() {
			return tb.Bin(OpEq, x.a, tb.Const(w, y.val-x.b.val))
		}
	case OpULt:
		if x == y {
			return tb.False
		}
		if y.IsConst() && y.val == 0 {
			return tb.False
		}
		if y.IsConst() && x.op == OpZExt && y.val > mask(x.a.w) {
			return tb.True
		}
		if y.IsConst() && x.op == OpZExt {
			return tb.Bin(OpULt, x.a, tb.Const(x.a.w, y.val))
		}
		if x.IsConst() && y.op == OpZExt {
			if x.val >= mask(y.a.w) {
				return tb.False
			}
			return tb.Bin(OpULt, tb.Const(y.a.w, x.val), y.a)
		}
	case OpULe:
		if x == y {
			return tb.True
		}
		if x.IsConst() && x.val == 0 {
			return tb.True
		}
		if y.IsConst() && x.op == OpZExt {
			if y.val >= mask(x.a.w) {
				return tb.True
			}
			return tb.Bin(OpULe, x.a, tb.Const(x.a.w, y.val))
		}
		if x.IsConst() && y.op == OpZExt {
			if x.val > mask(y.a.w) {
				return tb.False
			}
			return tb.Bin(OpULe, tb.Const(y.a.w, x.val), y.a)
		}
	case OpSLt:
		if x == y {
			return tb.False
		}
		// zext operands are non-negative: signed compare == unsigned compare
		if (x.op == OpZExt || (x.IsConst() && sext(x.val, w) >= 0)) && (y.op == OpZExt || (y.IsConst() && sext(y.val, w) >= 0)) {
			return tb.Bin(OpULt, x, y)
		}
		if x.op == OpZExt && y.IsConst() && sext(y.val, w) < 0 {
			return tb.False
		}
		if y.op == OpZExt && x.IsConst() && sext(x.val, w) < 0 {
			return tb.True
		}
	case OpSLe:
		if x == y {
			return tb.True
		}
		if (x.op == OpZExt || (x.IsConst() && sext(x.val, w) >= 0)) && (y.op == OpZExt || (y.IsConst() && sext(y.val, w) >= 0)) {
			return tb.Bin(OpULe, x, y)
		}
		if x.op == OpZExt && y.IsConst() && sext(y.val, w) < 0 {
			return tb.False
		}
		if y.op == OpZExt && x.IsConst() && sext(x.val, w) < 0 {
			return tb.True
		}
	}
	switch op {
	case OpEq, OpULt, OpULe, OpSLt, OpSLe:
		rx, ry := tb.rangeOf(x), tb.rangeOf(y)
		half := uint64(1) << uint(w-1)
		uop := op
		if (op == OpSLt || op == OpSLe) && rx.hi < half && ry.hi < half {
			// both non-negative: signed comparison is the unsigned one
			if op == OpSLt {
				uop = OpULt
			} else {
				uop = OpULe
			}
		}
		switch uop {
		case OpEq:
			if rx.hi < ry.lo || ry.hi < rx.lo {
				return tb.False
			}
		case OpULt:
			if rx.hi < ry.lo {
				return tb.True
			}
			if rx.lo >= ry.hi {
				return tb.False
			}
		case OpULe:
			if rx.hi <= ry.lo {
				return tb.True
			}
			if rx.lo > ry.hi {
				return tb.False
			}
		}
		if uop != op {
			return tb.mk(uop, rw, x, y, nil, 0, "")
		}
	}
	return tb.mk(op, rw, x, y, nil, 0, "")
}

func (tb *TB) Eq(x, y *Term) *Term { return tb.Bin(OpEq, x, y) }

func (tb *TB) BVNot(x *Term) *Term {
	if x.IsConst() {
		return tb.Const(x.w, ^x.val)
	}
	if x.op == OpBVNot {
		return x.a
	}
	return tb.mk(OpBVNot, x.w, x, nil, nil, 0, "")
}

func (tb *TB) Neg(x *Term) *Term {
	if x.IsConst() {
		return tb.Const(x.w, -x.val)
	}
	return tb.mk(OpNeg, x.w, x, nil, nil, 0, "")
}

func (tb *TB) Not(x *Term) *Term {
	if x.w != 0 {
		panic("Not on bv")
	}
	if x.IsConst() {
		return tb.Bool(x.val == 0)
	}
	if x.op == OpBNot {
		return x.a
	}
	return tb.mk(OpBNot, 0, x, nil, nil, 0, "")
}

func (tb *TB) And(x, y *Term) *Term {
	if x.w != 0 || y.w != 0 {
		panic("And on bv")
	}
	if x.IsConst() {
		if x.val != 0 {
			return y
		}
		return x
	}
	if y.IsConst() {
		if y.val != 0 {
			return x
		}
		return y
	}
	if x == y {
		return x
	}
	if x == tb.Not(y) {
		return tb.False
	}
	return tb.mk(OpBAnd, 0, x, y, nil, 0, "")
}

func (tb *TB) Or(x, y *Term) *Term {
	if x.w != 0 || y.w != 0 {
		panic("Or on bv")
	}
	if x.IsConst() {
		if x.val != 0 {
			return x
		}
		return y
	}
	if y.IsConst() {
		if y.val != 0 {
			return y
		}
		return x
	}
	if x == y {
		return x
	}
	if x == tb.Not(y) {
		return tb.True
	}
	return tb.mk(OpBOr, 0, x, y, nil, 0, "")
}

func (tb *TB) Implies(x, y *Term) *Term { return tb.Or(tb.Not(x), y) }

func (tb *TB) Iff(x, y *Term) *Term {
	if x.IsConst() {
		if x.val != 0 {
			return y
		}
		return tb.Not(y)
	}
	if y.IsConst() {
		if y.val != 0 {
			return x
		}
		return tb.Not(x)
	}
	if x == y {
		return tb.True
	}
	if x.id > y.id {
		x, y = y, x
	}
	return tb.mk(OpEq, 0, x, y, nil, 0, "")
}

func (tb *TB) Ite(c, x, y *Term) *Term {
	if c.w != 0 {
		panic("Ite cond not bool")
	}
	if x.w != y.w {
		panic(fmt.Sprintf("Ite width mismatch %d %d", x.w, y.w))
	}
	if c.IsConst() {
		if c.val != 0 {
			return x
		}
		return y
	}
	if x == y {
		return x
	}
	if x.w == 0 {
		// boolean ite
		if x.IsConst() && y.IsConst() {
			if x.val != 0 {
				return c
			}
			return tb.Not(c)
		}
		if x.IsConst() {
			if x.val != 0 {
				return tb.Or(c, y)
			}
			return tb.And(tb.Not(c), y)
		}
		if y.IsConst() {
			if y.val != 0 {
				return tb.Or(tb.Not(c), x)
			}
			return tb.And(c, x)
		}
	}
	if c.op == OpBNot {
		return tb.Ite(c.a, y, x)
	}
	return tb.mk(OpIte, x.w, c, x, y, 0, "")
}

func (tb *TB) Extract(x *Term, hi, lo int) *Term {
	w := hi - lo + 1
	if lo == 0 && w == x.w {
		return x
	}
	if x.IsConst() {
		return tb.Const(w, x.val>>uint(lo))
	}
	if (x.op == OpZExt || x.op == OpSExt) && hi < x.a.w {
		return tb.Extract(x.a, hi, lo)
	}
	if x.op == OpZExt && lo >= x.a.w {
		return tb.Const(w, 0)
	}
	if x.op == OpExtract {
		l0 := int(x.val & 0xff)
		return tb.Extract(x.a, hi+l0, lo+l0)
	}
	if x.op == OpIte && x.b.IsConst() && x.c.IsConst() {
		return tb.Ite(x.a, tb.Extract(x.b, hi, lo), tb.Extract(x.c, hi, lo))
	}
	if x.op == OpConcat {
		// a slice that lies inside one field of a concatenation is a slice of that field
		if hi < x.b.w {
			return tb.Extract(x.b, hi, lo)
		}
		if lo >= x.b.w {
			return tb.Extract(x.a, hi-x.b.w, lo-x.b.w)
		}
	}
	if x.op == OpLShr && x.b.IsConst() && hi+int(x.b.val) < x.w {
		// bits of a logical right shift are bits of the operand
		return tb.Extract(x.a, hi+int(x.b.val), lo+int(x.b.val))
	}
	return tb.mk(OpExtract, w, x, nil, nil, uint64(hi)<<8|uint64(lo), "")
}

func (tb *TB) ZExt(x *Term, w int) *Term {
	if w == x.w {
		return x
	}
	if w < x.w {
		return tb.Extract(x, w-1, 0)
	}
	if x.IsConst() {
		return tb.Const(w, x.val)
	}
	if x.op == OpZExt {
		return tb.ZExt(x.a, w)
	}
	if x.op == OpIte && x.b.IsConst() && x.c.IsConst() {
		return tb.Ite(x.a, tb.ZExt(x.b, w), tb.ZExt(x.c, w))
	}
	return tb.mk(OpZExt, w, x, nil, nil, 0, "")
}

func (tb *TB) SExt(x *Term, w int) *Term {
	if w == x.w {
		return x
	}
	if w < x.w {
		return tb.Extract(x, w-1, 0)
	}
	if x.IsConst() {
		return tb.Const(w, uint64(sext(x.val, x.w)))
	}
	if x.op == OpZExt {
		return tb.ZExt(x.a, w)
	}
	return tb.mk(OpSExt, w, x, nil, nil, 0, "")
}

func (tb *TB) Concat(hi, lo *Term) *Term {
	w := hi.w + lo.w
	if w > 64 {
		panic("Concat wider than 64")
	}
	if hi.IsConst() && lo.IsConst() {
		return tb.Const(w, hi.val<<uint(lo.w)|lo.val)
	}
	if hi.IsConst() && hi.val == 0 {
		return tb.ZExt(lo, w)
	}
	return tb.mk(OpConcat, w, hi, lo, nil, 0, "")
}

// ---------------------------------------------------------------- evaluation

type Model struct {
	vals map[string]uint64 // by variable name; absent = 0
	memo map[*Term]uint64
}

func NewModel(vals map[string]uint64) *Model {
	return &Model{vals: vals, memo: map[*Term]uint64{}}
}

func (m *Model) Eval(t *Term) uint64 {
	switch t.op {
	case OpConst:
		return t.val
	case OpVar:
		return m.vals[t.name] & maskB(t.w)
	}
	if v, ok := m.memo[t]; ok {
		return v
	}
	var r uint64
	switch t.op {
	case OpBVNot:
		r = ^m.Eval(t.a) & mask(t.w)
	case OpNeg:
		r = -m.Eval(t.a) & mask(t.w)
	case OpBNot:
		r = m.Eval(t.a) ^ 1
	case OpBAnd:
		if m.Eval(t.a) == 0 {
			r = 0
		} else {
			r = m.Eval(t.b)
		}
	case OpBOr:
		if m.Eval(t.a) != 0 {
			r = 1
		} else {
			r = m.Eval(t.b)
		}
	case OpIte:
		if m.Eval(t.a) != 0 {
			r = m.Eval(t.b)
		} else {
			r = m.Eval(t.c)
		}
	case OpExtract:
		hi, lo := int(t.val>>8), int(t.val&0xff)
		r = (m.Eval(t.a) >> uint(lo)) & mask(hi-lo+1)
	case OpConcat:
		r = m.Eval(t.a)<<uint(t.b.w) | m.Eval(t.b)
	case OpZExt:
		r = m.Eval(t.a)
	case OpSExt:
		r = uint64(sext(m.Eval(t.a), t.a.w)) & mask(t.w)
	case OpEq:
		r = b2u(m.Eval(t.a) == m.Eval(t.b))
	default:
		r = evalBin(t.op, t.a.w, m.Eval(t.a), m.Eval(t.b))
	}
	m.memo[t] = r
	return r
}

func maskB(w int) uint64 {
	if w == 0 {
		return 1
	}
	return mask(w)
}

// ---------------------------------------------------------------- printing

func sortName(w int) string {
	if w == 0 {
		return "Bool"
	}
	return fmt.Sprintf("(_ BitVec %d)", w)
}

func constLit(t *Term) string {
	if t.w == 0 {
		if t.val != 0 {
			return "true"
		}
		return "false"
	}
	if t.w%4 == 0 {
		return fmt.Sprintf("#x%0*x", t.w/4, t.val)
	}
	return fmt.Sprintf("#b%0*b", t.w, t.val)
}

// Printer emits SMT-LIB2 definitions incrementally; every non-leaf term is
// given a name (define-fun) the first time it is needed.
type Printer struct {
	defined map[int]bool
	sb      *strings.Builder
}

func NewPrinter() *Printer { return &Printer{defined: map[int]bool{}, sb: &strings.Builder{}} }

func (p *Printer) ref(t *Term) string {
	switch t.op {
	case OpConst:
		return constLit(t)
	case OpVar:
		return t.name
	}
	return fmt.Sprintf("t%d", t.id)
}

// Define makes sure t and all its sub-terms are declared/defined; output is
// appended to p.sb.
func (p *Printer) Define(t *Term) {
	if t.op == OpConst || p.defined[t.id] {
		return
	}
	// iterative post-order to avoid deep recursion on long chains
	type fr struct {
		t *Term
		i int
	}
	stack := []fr{{t, 0}}
	for len(stack) > 0 {
		top := &stack[len(stack)-1]
		cur := top.t
		if cur.op == OpConst || p.defined[cur.id] {
			stack = stack[:len(stack)-1]
			continue
		}
		var kids [3]*Term
		n := 0
		for _, k := range []*Term{cur.a, cur.b, cur.c} {
			if k != nil {
				kids[n] = k
				n++
			}
		}
		if top.i < n {
			k := kids[top.i]
			top.i++
			if k.op != OpConst && !p.defined[k.id] {
				stack = append(stack, fr{k, 0})
			}
			continue
		}
		p.defined[cur.id] = true
		stack = stack[:len(stack)-1]
		if cur.op == OpVar {
			fmt.Fprintf(p.sb, "(declare-const %s %s)\n", cur.name, sortName(cur.w))
			continue
		}
		fmt.Fprintf(p.sb, "(define-fun t%d () %s ", cur.id, sortName(cur.w))
		switch cur.op {
		case OpExtract:
			fmt.Fprintf(p.sb, "((_ extract %d %d) %s)", cur.val>>8, cur.val&0xff, p.ref(cur.a))
		case OpZExt, OpSExt:
			fmt.Fprintf(p.sb, "((_ %s %d) %s)", opNames[cur.op], cur.w-cur.a.w, p.ref(cur.a))
		default:
			p.sb.WriteString("(")
			p.sb.WriteString(opNames[cur.op])
			for i := 0; i < n; i++ {
				p.sb.WriteString(" ")
				p.sb.WriteString(p.ref(kids[i]))
			}
			p.sb.WriteString(")")
		}
		p.sb.WriteString(")\n")
	}
}

func (p *Printer) Take() string {
	s := p.sb.String()
	p.sb.Reset()
	return s
}

// Vars collects the variables occurring in the given terms.
func CollectVars(ts []*Term) []*Term {
	seen := map[int]bool{}
	var out []*Term
	var stack []*Term
	stack = append(stack, ts...)
	for len(stack) > 0 {
		t := stack[len(stack)-1]
		stack = stack[:len(stack)-1]
		if t == nil || seen[t.id] {
			continue
		}
		seen[t.id] = true
		if t.op == OpVar {
			out = append(out, t)
			continue
		}
		stack = append(stack, t.a, t.b, t.c)
	}
	return out
}

func (t *Term) String() string {
	var sb strings.Builder
	t.str(&sb, 0)
	return sb.String()
}

func (t *Term) str(sb *strings.Builder, depth int) {
	switch t.op {
	case OpConst:
		if t.w == 0 {
			sb.WriteString(constLit(t))
		} else {
			fmt.Fprintf(sb, "%d:%d", t.val, t.w)
		}
		return
	case OpVar:
		sb.WriteString(t.name)
		return
	}
	if depth > 6 {
		fmt.Fprintf(sb, "t%d", t.id)
		return
	}
	sb.WriteString("(")
	sb.WriteString(opNames[t.op])
	if t.op == OpExtract {
		fmt.Fprintf(sb, "[%d:%d]", t.val>>8, t.val&0xff)
	}
	for _, k := range []*Term{t.a, t.b, t.c} {
		if k != nil {
			sb.WriteString(" ")
			k.str(sb, depth+1)
		}
	}
	sb.WriteString(")")
}

var _ = bits.Len
