package main

// Sound unsigned interval analysis over bit-vector terms (memoised). Used to
// decide comparisons at term construction, to restrict table reads at a
// symbolic index to the feasible entries, and to seed the integer
// translation's intervals.

import "math/bits"

type urange struct{ lo, hi uint64 }

func (tb *TB) rangeOf(t *Term) urange {
	if t.w == 0 {
		return urange{0, 1}
	}
	if t.op == OpConst {
		return urange{t.val, t.val}
	}
	if r, ok := tb.rangeMemo[t.id]; ok {
		return r
	}
	r := tb.range0(t, tb.rangeOf)
	tb.rangeMemo[t.id] = r
	return r
}

func addOK(a, b uint64, m uint64) (uint64, bool) {
	s, c := bits.Add64(a, b, 0)
	if c != 0 || s > m {
		return 0, false
	}
	return s, true
}

func mulOK(a, b uint64, m uint64) (uint64, bool) {
	hi, lo := bits.Mul64(a, b)
	if hi != 0 || lo > m {
		return 0, false
	}
	return lo, true
}

func pow2ceilMask(v uint64) uint64 {
	if v == 0 {
		return 0
	}
	n := bits.Len64(v)
	if n >= 64 {
		return ^uint64(0)
	}
	return (uint64(1) << uint(n)) - 1
}

// range0 computes the interval of t from the intervals of its operands as given by sub.
func (tb *TB) range0(t *Term, sub func(*Term) urange) urange {
	m := mask(t.w)
	full := urange{0, m}
	switch t.op {
	case OpVar:
		return full
	case OpZExt:
		return sub(t.a)
	case OpSExt:
		a := sub(t.a)
		if a.hi < uint64(1)<<uint(t.a.w-1) {
			return a
		}
		return full
	case OpExtract:
		a := sub(t.a)
		hi, lo := int(t.val>>8), int(t.val&0xff)
		n := hi - lo + 1
		l, h := a.lo>>uint(lo), a.hi>>uint(lo)
		if h <= mask(n) {
			return urange{l, h}
		}
		return urange{0, mask(n)}
	case OpAdd:
		a, b := sub(t.a), sub(t.b)
		if h, ok := addOK(a.hi, b.hi, m); ok {
			return urange{a.lo + b.lo, h}
		}
		// both operands always wrap exactly once? (e.g. x + (2^w - c) with x >= c: subtraction of a constant)
		if l, c := bits.Add64(a.lo, b.lo, 0); t.w == 64 && c != 0 {
			h, _ := bits.Add64(a.hi, b.hi, 0)
			return urange{l, h}
		} else if t.w < 64 && l > m && a.hi+b.hi <= m+m+1 {
			return urange{l - (m + 1), a.hi + b.hi - (m + 1)}
		}
		return full
	case OpSub:
		a, b := sub(t.a), sub(t.b)
		if a.lo >= b.hi {
			return urange{a.lo - b.hi, a.hi - b.lo}
		}
		return full
	case OpMul:
		a, b := sub(t.a), sub(t.b)
		if h, ok := mulOK(a.hi, b.hi, m); ok {
			return urange{a.lo * b.lo, h}
		}
		return full
	case OpUDiv:
		a, b := sub(t.a), sub(t.b)
		if b.lo > 0 {
			return urange{a.lo / b.hi, a.hi / b.lo}
		}
		return full
	case OpURem:
		a, b := sub(t.a), sub(t.b)
		if b.lo > 0 {
			h := b.hi - 1
			if a.hi < h {
				h = a.hi
			}
			return urange{0, h}
		}
		return urange{0, a.hi}
	case OpAnd:
		a, b := sub(t.a), sub(t.b)
		h := a.hi
		if b.hi < h {
			h = b.hi
		}
		return urange{0, h}
	case OpOr, OpXor:
		a, b := sub(t.a), sub(t.b)
		h := pow2ceilMask(a.hi | b.hi)
		if h > m {
			h = m
		}
		l := uint64(0)
		if t.op == OpOr {
			l = a.lo
			if b.lo > l {
				l = b.lo
			}
		}
		return urange{l, h}
	case OpShl:
		if t.b.IsConst() {
			a := sub(t.a)
			k := t.b.val
			if k < uint64(t.w) {
				if h, ok := mulOK(a.hi, uint64(1)<<k, m); ok {
					return urange{a.lo << k, h}
				}
			}
		}
		return full
	case OpLShr:
		if t.b.IsConst() {
			a := sub(t.a)
			k := t.b.val
			if k >= uint64(t.w) {
				return urange{0, 0}
			}
			return urange{a.lo >> k, a.hi >> k}
		}
		return urange{0, sub(t.a).hi}
	case OpAShr:
		a := sub(t.a)
		if a.hi < uint64(1)<<uint(t.w-1) {
			if t.b.IsConst() && t.b.val < uint64(t.w) {
				return urange{a.lo >> t.b.val, a.hi >> t.b.val}
			}
			return urange{0, a.hi}
		}
		return full
	case OpIte:
		a, b := sub(t.b), sub(t.c)
		l, h := a.lo, a.hi
		if b.lo < l {
			l = b.lo
		}
		if b.hi > h {
			h = b.hi
		}
		return urange{l, h}
	case OpBVNot:
		a := sub(t.a)
		return urange{m - a.hi, m - a.lo}
	case OpConcat:
		a, b := sub(t.a), sub(t.b)
		s := uint(t.b.w)
		return urange{a.lo<<s + b.lo, a.hi<<s + b.hi}
	}
	return full
}

// ---- path-sensitive intervals: bounds harvested from the path condition's
// top-level atoms refine the structural analysis. The results are valid only
// under the current path condition and are used only for values of this path.

func (in *Interp) ctxHarvest(a *Term, neg bool) {
	switch a.op {
	case OpBNot:
		in.ctxHarvest(a.a, !neg)
	case OpBAnd:
		if !neg {
			in.ctxHarvest(a.a, false)
			in.ctxHarvest(a.b, false)
		}
	case OpBOr:
		if neg {
			in.ctxHarvest(a.a, true)
			in.ctxHarvest(a.b, true)
		}
	case OpULt, OpULe:
		l, r := a.a, a.b
		strict := a.op == OpULt
		if neg {
			l, r = r, l
			strict = !strict
		}
		if r.IsConst() && !l.IsConst() {
			hi := r.val
			if strict {
				if hi == 0 {
					return
				}
				hi--
			}
			in.ctxAdd(l, 0, hi)
		} else if l.IsConst() && !r.IsConst() {
			lo := l.val
			if strict {
				if lo == mask(r.w) {
					return
				}
				lo++
			}
			in.ctxAdd(r, lo, mask(r.w))
		}
	case OpSLt:
		if a.b.IsConst() && a.b.val == 0 && !a.a.IsConst() {
			half := uint64(1) << uint(a.a.w-1)
			if !neg {
				in.ctxAdd(a.a, half, mask(a.a.w))
			} else {
				in.ctxAdd(a.a, 0, half-1)
			}
		}
	case OpEq:
		if !neg && a.a.w > 0 && a.b.IsConst() && !a.a.IsConst() {
			in.ctxAdd(a.a, a.b.val, a.b.val)
		}
	}
}

func (in *Interp) ctxAdd(t *Term, lo, hi uint64) {
	b, ok := in.ctxBounds[t]
	if !ok {
		b = urange{0, mask(t.w)}
	}
	changed := false
	if lo > b.lo {
		b.lo = lo
		changed = true
	}
	if hi < b.hi {
		b.hi = hi
		changed = true
	}
	if changed || !ok {
		in.ctxBounds[t] = b
		// magnitude of a negative value: bounds on -x give bounds on x
		if t.op == OpNeg && b.lo > 0 {
			m := mask(t.w)
			in.ctxAdd(t.a, m-b.hi+1, m-b.lo+1)
		}
		if len(in.ctxMemo) > 0 {
			in.ctxMemo = map[int]urange{}
		}
	}
}

func (in *Interp) rangeCtx(t *Term) urange {
	if t.w == 0 {
		return urange{0, 1}
	}
	if t.op == OpConst {
		return urange{t.val, t.val}
	}
	if len(in.ctxBounds) == 0 {
		return in.tb.rangeOf(t)
	}
	if r, ok := in.ctxMemo[t.id]; ok {
		return r
	}
	r := in.tb.range0(t, in.rangeCtx)
	if b, ok := in.ctxBounds[t]; ok {
		if b.lo > r.lo {
			r.lo = b.lo
		}
		if b.hi < r.hi {
			r.hi = b.hi
		}
		if r.lo > r.hi { // contradictory: the path is infeasible; keep something sane
			r = b
		}
	}
	in.ctxMemo[t.id] = r
	return r
}
