package main

import (
	"fmt"
	"go/types"
	"os"

	"golang.org/x/tools/go/ssa"
)

// prepareCall evaluates the callee and arguments of a call.
func (in *Interp) prepareCall(fr *Frame, c *ssa.CallCommon) (Value, []Value, *types.Func) {
	args := make([]Value, 0, len(c.Args)+1)
	if c.IsInvoke() {
		recv := in.get(fr, c.Value)
		args = append(args, recv)
		for _, a := range c.Args {
			args = append(args, in.get(fr, a))
		}
		return nil, args, c.Method
	}
	fn := in.get(fr, c.Value)
	for _, a := range c.Args {
		args = append(args, in.get(fr, a))
	}
	return fn, args, nil
}

func (in *Interp) callValue(fn Value, args []Value, invoke *types.Func) Value {
	if invoke != nil {
		recv, ok := args[0].(IfaceV)
		if !ok {
			panic(fmt.Sprintf("invoke on non-interface %T", args[0]))
		}
		if recv.t == nil {
			panic(in.rtPanic("invalid memory address or nil pointer dereference (nil interface method call " + invoke.Name() + ")"))
		}
		m := in.prog.LookupMethod(recv.t, invoke.Pkg(), invoke.Name())
		if m == nil {
			panic(unsupported(fmt.Sprintf("method %s not found on %s", invoke.Name(), recv.t)))
		}
		nargs := append([]Value{recv.v}, args[1:]...)
		return in.callFunction(m, nargs, nil)
	}
	switch f := fn.(type) {
	case *ssa.Function:
		return in.callFunction(f, args, nil)
	case *ClosureV:
		return in.callFunction(f.fn, args, f.free)
	case *ssa.Builtin:
		return in.builtin(f, args)
	case nilFunc:
		panic(in.rtPanic("invalid memory address or nil pointer dereference (nil func call)"))
	}
	panic(unsupported(fmt.Sprintf("call of %T", fn)))
}

func (in *Interp) sliceElems(s SliceV) []Value {
	out := make([]Value, s.len)
	for i := 0; i < s.len; i++ {
		out[i] = in.load(in.elem(s.arr, s.off+i))
	}
	return out
}

func (in *Interp) appendValues(s SliceV, et types.Type, vals []Value) SliceV {
	if len(vals) == 0 {
		return s
	}
	n := s.len + len(vals)
	if s.arr != nil && n <= s.cap {
		for i, v := range vals {
			in.store(in.elem(s.arr, s.off+s.len+i), v)
		}
		return SliceV{arr: s.arr, off: s.off, len: n, cap: s.cap}
	}
	nc := s.cap * 2
	if nc < n {
		nc = n
	}
	if nc < 4 {
		nc = 4
	}
	arr := in.newArr(et, nc)
	for i := 0; i < s.len; i++ {
		in.store(in.elem(arr, i), in.load(in.elem(s.arr, s.off+i)))
	}
	for i, v := range vals {
		in.store(in.elem(arr, s.len+i), v)
	}
	return SliceV{arr: arr, off: 0, len: n, cap: nc}
}

func (in *Interp) builtin(b *ssa.Builtin, args []Value) Value {
	tb := in.tb
	switch b.Name() {
	case "len":
		switch a := args[0].(type) {
		case StrV:
			return tb.Const(64, uint64(len(a.b)))
		case SliceV:
			return tb.Const(64, uint64(a.len))
		case *MapObj:
			if a == nil {
				return tb.Const(64, 0)
			}
			return tb.Const(64, uint64(len(a.ents)))
		case *ArrayV:
			return tb.Const(64, uint64(len(a.e)))
		case PtrV:
			return tb.Const(64, uint64(a.c.n))
		case *ChanObj:
			if a == nil {
				return tb.Const(64, 0)
			}
			return tb.Const(64, uint64(len(a.buf)))
		}
	case "cap":
		switch a := args[0].(type) {
		case SliceV:
			return tb.Const(64, uint64(a.cap))
		case *ArrayV:
			return tb.Const(64, uint64(len(a.e)))
		case PtrV:
			return tb.Const(64, uint64(a.c.n))
		case *ChanObj:
			if a == nil {
				return tb.Const(64, 0)
			}
			return tb.Const(64, uint64(a.cap))
		}
	case "append":
		s := args[0].(SliceV)
		sig := b.Type().(*types.Signature)
		et := sig.Params().At(0).Type().Underlying().(*types.Slice).Elem()
		switch a := args[1].(type) {
		case SliceV:
			return in.appendValues(s, et, in.sliceElems(a))
		case StrV:
			vals := make([]Value, len(a.b))
			for i, x := range a.b {
				vals[i] = x
			}
			return in.appendValues(s, et, vals)
		}
	case "copy":
		dst := args[0].(SliceV)
		var src []Value
		switch a := args[1].(type) {
		case SliceV:
			src = in.sliceElems(a)
		case StrV:
			src = make([]Value, len(a.b))
			for i, x := range a.b {
				src[i] = x
			}
		}
		n := len(src)
		if dst.len < n {
			n = dst.len
		}
		for i := 0; i < n; i++ {
			in.store(in.elem(dst.arr, dst.off+i), src[i])
		}
		return tb.Const(64, uint64(n))
	case "delete":
		in.mapDelete(args[0].(*MapObj), args[1])
		return nil
	case "clear":
		switch a := args[0].(type) {
		case *MapObj:
			if a != nil {
				in.mapTouch(a)
				a.ents = nil
			}
		case SliceV:
			for i := 0; i < a.len; i++ {
				c := in.elem(a.arr, a.off+i)
				in.store(c, in.zero(c.t))
			}
		}
		return nil
	case "min", "max":
		r := args[0]
		sig := b.Type().(*types.Signature)
		t := sig.Params().At(0).Type()
		for _, a := range args[1:] {
			switch x := r.(type) {
			case *Term:
				y := a.(*Term)
				var lt *Term
				if isSigned(t) {
					lt = tb.Bin(OpSLt, y, x)
				} else {
					lt = tb.Bin(OpULt, y, x)
				}
				if b.Name() == "max" {
					lt = tb.Not(tb.Or(lt, tb.Eq(x, y)))
				}
				r = tb.Ite(lt, y, x)
			case FloatV:
				y := a.(FloatV)
				if (b.Name() == "min") == (y < x) {
					r = y
				}
			default:
				panic(unsupported("min/max on " + fmt.Sprintf("%T", r)))
			}
		}
		return r
	case "print", "println":
		if os.Getenv("SYMGO_PRINT") != "" {
			for _, a := range args {
				fmt.Fprint(os.Stderr, describe(a), " ")
			}
			fmt.Fprintln(os.Stderr)
		}
		return nil
	case "recover":
		// handled through the frame: see callBuiltinRecover
		panic("recover must be handled by caller")
	case "close":
		ch := args[0].(*ChanObj)
		ch.closed = true
		return nil
	case "String": // unsafe.String(ptr, len)
		p := args[0].(PtrV)
		n := in.concInt(args[1], "unsafe.String len")
		if n == 0 {
			return StrV{}
		}
		if p.c == nil || p.c.parr == nil {
			panic(unsupported("unsafe.String on a pointer that is not an array element"))
		}
		b := make([]*Term, n)
		for i := 0; i < n; i++ {
			b[i] = in.load(in.elem(p.c.parr, p.c.pidx+i)).(*Term)
		}
		return StrV{b}
	case "StringData":
		s := args[0].(StrV)
		if len(s.b) == 0 {
			return PtrV{}
		}
		sl := in.mkByteSlice(s.b)
		return PtrV{c: in.elem(sl.arr, 0)}
	case "SliceData":
		s := args[0].(SliceV)
		if s.arr == nil {
			return PtrV{}
		}
		if s.cap == 0 {
			return PtrV{c: in.newCell(s.arr.et)}
		}
		return PtrV{c: in.elem(s.arr, s.off)}
	case "Slice": // unsafe.Slice(ptr, len)
		p := args[0].(PtrV)
		n := in.concInt(args[1], "unsafe.Slice len")
		if p.c == nil {
			return SliceV{}
		}
		if p.c.parr == nil {
			if n <= 1 {
				arr := &ArrObj{cells: []*Cell{p.c}, et: p.c.t, born: p.c.born}
				return SliceV{arr: arr, len: n, cap: 1}
			}
			panic(unsupported("unsafe.Slice on a pointer that is not an array element"))
		}
		return SliceV{arr: p.c.parr, off: p.c.pidx, len: n, cap: n}
	case "ssa:wrapnilchk":
		p := args[0].(PtrV)
		if p.c == nil {
			panic(in.rtPanic("value method called using nil pointer"))
		}
		return p
	}
	panic(unsupported(fmt.Sprintf("builtin %s on %T", b.Name(), args[0])))
}
