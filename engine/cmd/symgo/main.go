package main

import (
	"encoding/json"
	"flag"
	"fmt"
	"os"
	"os/exec"
	"path/filepath"
	"sort"
	"strconv"
	"strings"
	"sync"
	"time"

	"golang.org/x/tools/go/packages"
	"golang.org/x/tools/go/ssa"
	"golang.org/x/tools/go/ssa/ssautil"
)

const (
	verifDir = "/verif"
	modPath  = "github.com/ogen-go/ogen"
	zzImport = modPath + "/internal/zzverif"
)

// repoDir is /repo. SYMGO_REPO (debug only: validating the machinery against a
// scratch copy while /repo is busy) redirects it; evidence and replays then go
// to SYMGO_OUT, never to /verif/evidence.
var (
	repoDir   = "/repo"
	outDir    = verifDir
	zzVirtual string
)

func init() {
	if r := os.Getenv("SYMGO_REPO"); r != "" {
		repoDir = r
		outDir = os.Getenv("SYMGO_OUT")
		if outDir == "" {
			outDir = filepath.Join(os.TempDir(), "symgo-out")
		}
	}
	zzVirtual = repoDir + "/internal/zzverif/zzverif.go"
}

type CaseSpec struct {
	Entry   string  `json:"entry"`
	Args    [][]int `json:"args"`
	Product [][]int `json:"product"` // list of [lo,hi] ranges, cartesian product
}

type GenSpec struct {
	Name     string         `json:"name"` // virtual package dir name under internal/zzgen
	Spec     string         `json:"spec"` // spec file relative to the harness dir (or produced by SpecCmd)
	SpecCmd  []string       `json:"spec_cmd"`
	Features []string       `json:"features"`
	HubEntry map[string]int `json:"hub_entry"` // exported harness entry -> number of int args after the package index
	MustAccept []string     `json:"must_accept"` // compile-only units: packages the generator must accept (reachability witness of a fault matrix)
	MustAcceptProp []string `json:"must_accept_property"` // compile-only units: specs whose REFUSAL breaks the property itself (reported as a violation, with the diagnostic)
}

type UnitSpec struct {
	Name           string                `json:"name"`
	Pkg            string                `json:"pkg"`
	Dir            string                `json:"dir"`
	Harness        []string              `json:"harness"`
	Gen            *GenSpec              `json:"gen"`
	Cases          map[string][]CaseSpec `json:"cases"`
	MaxPaths       int                   `json:"max_paths"`
	MaxSteps       int64                 `json:"max_steps"`
	Covers         []string              `json:"covers"` // labels that must be reached (default: all Cover() literals in the harness)
	Tiers          []string              `json:"tiers"`  // tiers in which the unit runs (default both)
	Prefer         string                `json:"prefer"` // "" (pipe first) or a one-shot solver name tried first for hard arithmetic
	PipeTimeoutMS  int                   `json:"pipe_timeout_ms"`
	AssertTimeoutS int                   `json:"assert_timeout_s"`
	CompileOnly    bool                  `json:"compile_only"` // gen unit: the claim is "every generated package type-checks and builds"
	Stubs          map[string]string     `json:"stubs"`        // function key -> harness function replacing it under the engine (environment stubs)
	// Links: body-less harness function (declared with //go:linkname to an unexported function of ANOTHER package
	// of /repo, which an import cycle keeps the harness from calling directly) -> "import/path.func". Under the
	// engine the call is redirected to the target's SSA body; natively the linker resolves it. ExtraPkgs are loaded
	// (engine) and linked (native, through an external test file) next to the unit's package.
	Links     map[string]string `json:"links"`
	ExtraPkgs []string          `json:"extra_pkgs"`
	genBounds      map[string]any
}

type CheckSpec struct {
	Property    string         `json:"property"`
	Level       string         `json:"level"`
	Units       []UnitSpec     `json:"units"`
	Assumptions []string       `json:"assumptions"`
	OutOfClaim  string         `json:"out_of_claim"`
	Bounds      map[string]any `json:"bounds"`
	TimeBudgetS map[string]int `json:"time_budget_s"`
}

type knownEntry struct {
	Property string
	Key      string
	Desc     string
}

func loadKnown() (map[string]knownEntry, []string) {
	out := map[string]knownEntry{}
	var fixed []string
	data, err := os.ReadFile(filepath.Join(verifDir, "known_findings.txt"))
	if err != nil {
		return out, nil
	}
	for _, line := range strings.Split(string(data), "\n") {
		line = strings.TrimSpace(line)
		if strings.HasPrefix(line, "fixed:") {
			fixed = append(fixed, line)
			continue
		}
		if !strings.HasPrefix(line, "known:") {
			continue
		}
		fs := strings.Fields(line[len("known:"):])
		e := knownEntry{}
		var rest []string
		for _, f := range fs {
			switch {
			case strings.HasPrefix(f, "property=") && e.Property == "":
				e.Property = f[len("property="):]
			case strings.HasPrefix(f, "key=") && e.Key == "":
				e.Key = f[len("key="):]
			default:
				rest = append(rest, f)
			}
		}
		e.Desc = strings.Join(rest, " ")
		if e.Key != "" {
			out[e.Key] = e
		}
	}
	return out, fixed
}

func expandCases(cs []CaseSpec) [][2]any {
	var out [][2]any
	for _, c := range cs {
		for _, a := range c.Args {
			out = append(out, [2]any{c.Entry, a})
		}
		if len(c.Product) > 0 {
			cur := [][]int{{}}
			for _, r := range c.Product {
				var nxt [][]int
				for _, pre := range cur {
					for v := r[0]; v <= r[1]; v++ {
						nxt = append(nxt, append(append([]int(nil), pre...), v))
					}
				}
				cur = nxt
			}
			for _, a := range cur {
				out = append(out, [2]any{c.Entry, a})
			}
		}
		if len(c.Args) == 0 && len(c.Product) == 0 {
			out = append(out, [2]any{c.Entry, []int{}})
		}
	}
	return out
}

type runOpts struct {
	tier     string
	workers  int
	only     string
	caseSub  string
	verbose  bool
	seed     int64
	keep     bool
	noNative bool
	vector   string
}

func main() {
	if len(os.Args) < 2 {
		fmt.Fprintln(os.Stderr, "usage: symgo check <id> [--tier quick|thorough]")
		os.Exit(2)
	}
	switch os.Args[1] {
	case "check":
		fs := flag.NewFlagSet("check", flag.ExitOnError)
		o := runOpts{}
		fs.StringVar(&o.tier, "tier", "quick", "quick|thorough")
		fs.IntVar(&o.workers, "workers", 16, "parallel workers")
		fs.StringVar(&o.only, "unit", "", "run only this unit")
		fs.StringVar(&o.caseSub, "case", "", "run only cases whose name contains this")
		fs.BoolVar(&o.verbose, "v", false, "verbose")
		fs.BoolVar(&o.keep, "keep", false, "keep scratch dir")
		fs.BoolVar(&o.noNative, "no-native", false, "skip native replay (debug only; never registers evidence)")
		fs.StringVar(&o.vector, "vector", "", "debug: pin the nondeterministic inputs to this comma-separated vector (concrete run, prints Observe values)")
		id := os.Args[2]
		fs.Parse(os.Args[3:])
		if t := os.Getenv("VERIF_TIER"); t == "quick" || t == "thorough" {
			o.tier = t
		}
		if s := os.Getenv("VERIF_SEED"); s != "" {
			o.seed, _ = strconv.ParseInt(s, 10, 64)
		}
		os.Exit(runCheck(id, o))
	default:
		fmt.Fprintln(os.Stderr, "unknown command")
		os.Exit(2)
	}
}

type unitResult struct {
	unit      UnitSpec
	cases     []*CaseResult
	load      time.Duration
	nativeOK  int
	nativeBad []string
	confirmed []Violation // violations reproduced natively
	unconf    []Violation
	coverAll  []string
	assertAll []string
	funcs     int
	err       error
	nCases    int
	skipped   []string // cases not run because their generated package does not type-check (inconclusive)
}

func runCheck(id string, o runOpts) int {
	t0 := time.Now()
	hdir := filepath.Join(verifDir, "harness", id)
	cj := filepath.Join(hdir, "check.json")
	if x := os.Getenv("SYMGO_CHECKJSON"); x != "" && os.Getenv("SYMGO_REPO") != "" { // debug only (evidence goes to SYMGO_OUT)
		cj = x
	}
	data, err := os.ReadFile(cj)
	if err != nil {
		fmt.Fprintln(os.Stderr, "cannot read check.json:", err)
		return 2
	}
	var spec CheckSpec
	if err := json.Unmarshal(data, &spec); err != nil {
		fmt.Fprintln(os.Stderr, "check.json:", err)
		return 2
	}
	if os.Getenv("SYMGO_FORKS") != "" {
		forkProfile = map[string]int{}
		o.workers = 1
	}
	known, _ := loadKnown()
	listed := map[string]bool{}
	for k, e := range known {
		if e.Property == id {
			listed[k] = true
		}
	}
	scratch, err := os.MkdirTemp("", "verif-"+id+"-")
	if err != nil {
		fmt.Fprintln(os.Stderr, err)
		return 2
	}
	if !o.keep {
		defer os.RemoveAll(scratch)
	}
	budget := 170
	if o.tier == "thorough" {
		budget = 2400
	}
	if b, ok := spec.TimeBudgetS[o.tier]; ok {
		budget = b
	}
	deadline := t0.Add(time.Duration(budget) * time.Second)

	var results []*unitResult
	for _, u := range spec.Units {
		if o.only != "" && u.Name != o.only {
			continue
		}
		if len(u.Tiers) > 0 {
			in := false
			for _, t := range u.Tiers {
				if t == o.tier {
					in = true
				}
			}
			if !in {
				continue
			}
		}
		// every unit gets an equal share of the check's time budget
		nunits := 0
		for _, uu := range spec.Units {
			if o.only == "" || uu.Name == o.only {
				nunits++
			}
		}
		if nunits < 1 {
			nunits = 1
		}
		udl := time.Now().Add(time.Duration(budget/nunits) * time.Second)
		if udl.After(deadline) {
			udl = deadline
		}
		r := runUnit(id, hdir, scratch, u, o, listed, udl)
		results = append(results, r)
	}
	if forkProfile != nil {
		type kv struct {
			k string
			v int
		}
		var kvs []kv
		for k, v := range forkProfile {
			kvs = append(kvs, kv{k, v})
		}
		sort.Slice(kvs, func(i, j int) bool { return kvs[i].v > kvs[j].v })
		for i, e := range kvs {
			if i >= 25 {
				break
			}
			fmt.Fprintf(os.Stderr, "FORKS %7d %s\n", e.v, e.k)
		}
	}
	return report(id, &spec, o, results, known, time.Since(t0))
}

func overlayFor(hdir, scratch string, u UnitSpec, pkgName string, withTest bool) (map[string][]byte, map[string]string, error) {
	ov := map[string][]byte{}
	paths := map[string]string{}
	zz, err := os.ReadFile(filepath.Join(verifDir, "rt", "zzverif", "zzverif.go"))
	if err != nil {
		return nil, nil, err
	}
	ov[zzVirtual] = zz
	paths[zzVirtual] = filepath.Join(verifDir, "rt", "zzverif", "zzverif.go")
	for _, h := range u.Harness {
		if u.Gen != nil {
			break // copied into every generated package by generateUnit
		}
		src := filepath.Join(hdir, h)
		b, err := os.ReadFile(src)
		if err != nil {
			return nil, nil, err
		}
		dst := filepath.Join(repoDir, u.Dir, "zz_verif_"+filepath.Base(h))
		ov[dst] = b
		paths[dst] = src
	}
	if len(u.Links) > 0 {
		// body-less declarations need an assembly file in the package
		asm := filepath.Join(scratch, "zz_verif_empty_"+u.Name+".s")
		if err := os.WriteFile(asm, []byte("// body-less go:linkname declarations of the harness\n"), 0o644); err != nil {
			return nil, nil, err
		}
		dst := filepath.Join(repoDir, u.Dir, "zz_verif_empty.s")
		ov[dst] = []byte("// body-less go:linkname declarations of the harness\n")
		paths[dst] = asm
	}
	if withTest && len(u.ExtraPkgs) > 0 {
		var sb strings.Builder
		fmt.Fprintf(&sb, "package %s_test\n\nimport (\n", pkgName)
		for _, e := range u.ExtraPkgs {
			fmt.Fprintf(&sb, "\t_ %q\n", e)
		}
		sb.WriteString(")\n")
		tp := filepath.Join(scratch, "zz_link_"+u.Name+"_test.go")
		if err := os.WriteFile(tp, []byte(sb.String()), 0o644); err != nil {
			return nil, nil, err
		}
		dst := filepath.Join(repoDir, u.Dir, "zz_verif_link_test.go")
		ov[dst] = []byte(sb.String())
		paths[dst] = tp
	}
	if withTest {
		test := fmt.Sprintf("package %s\n\nimport (\n\t\"testing\"\n\tzz %q\n)\n\nfunc TestZZReplay(t *testing.T) { zz.RunNative(ZZEntries) }\n", pkgName, zzImport)
		tp := filepath.Join(scratch, "zz_replay_"+u.Name+"_test.go")
		if err := os.WriteFile(tp, []byte(test), 0o644); err != nil {
			return nil, nil, err
		}
		dst := filepath.Join(repoDir, u.Dir, "zz_verif_replay_test.go")
		ov[dst] = []byte(test)
		paths[dst] = tp
	}
	return ov, paths, nil
}

func goEnv() []string {
	env := os.Environ()
	env = append(env, "GOFLAGS=-mod=mod", "GOPROXY=off", "GOSUMDB=off", "GOTOOLCHAIN=local", "CGO_ENABLED=0")
	return env
}

func runUnit(id, hdir, scratch string, u UnitSpec, o runOpts, listed map[string]bool, deadline time.Time) *unitResult {
	res := &unitResult{unit: u}
	defer func() { res.unit = u }()
	tl := time.Now()
	if u.Gen != nil {
		if err := generateUnit(hdir, scratch, &u, o.tier, o.seed); err != nil {
			res.err = fmt.Errorf("generation failed: %w", err)
			return res
		}
	}
	if u.CompileOnly {
		compileOnlyUnit(id, scratch, &u, res, listed)
		return res
	}
	var pkgs []*packages.Package
	for attempt := 0; ; attempt++ {
		ov, ovPaths, err := overlayFor(hdir, scratch, u, "", false)
		if err != nil {
			res.err = err
			return res
		}
		for k, v := range u.genOverlay() {
			b, err := os.ReadFile(v)
			if err != nil {
				res.err = err
				return res
			}
			ov[k] = b
			ovPaths[k] = v
		}
		cfg := &packages.Config{Mode: packages.LoadAllSyntax, Dir: repoDir, Overlay: ov, Env: goEnv()}
		pkgs, err = packages.Load(cfg, append([]string{u.Pkg}, u.ExtraPkgs...)...)
		if err != nil {
			res.err = err
			return res
		}
		nerr := 0
		bad := map[string]string{}
		packages.Visit(pkgs, nil, func(p *packages.Package) {
			for _, e := range p.Errors {
				if nerr < 10 {
					fmt.Fprintf(os.Stderr, "load error: %s: %v\n", p.PkgPath, e)
				}
				if _, ok := bad[p.PkgPath]; !ok {
					bad[p.PkgPath] = e.Error()
				}
				nerr++
			}
		})
		if nerr == 0 && len(pkgs) > 0 {
			break
		}
		// a generated package the generator accepted does not type-check: drop it (its cases are inconclusive)
		// and check the remaining packages of the unit
		if st, ok := genStates[u.Name]; ok && attempt == 0 && st.dropBroken(&u, bad) {
			continue
		}
		res.err = fmt.Errorf("package %s does not load/type-check (%d errors)", u.Pkg, nerr)
		return res
	}
	prog, spkgs := ssautil.AllPackages(pkgs, ssa.InstantiateGenerics)
	prog.Build()
	main := spkgs[0]
	for i, p := range pkgs {
		if p.PkgPath == u.Pkg {
			main = spkgs[i]
		}
	}
	res.load = time.Since(tl)

	// native test binary, built in the background
	var nativeBin string
	var nativeErr error
	var wg sync.WaitGroup
	ovT, ovTPaths, err := overlayFor(hdir, scratch, u, main.Pkg.Name(), true)
	_ = ovT
	if err != nil {
		res.err = err
		return res
	}
	for k, v := range u.genOverlay() {
		ovTPaths[k] = v
	}
	ovFile := filepath.Join(scratch, "overlay_"+u.Name+".json")
	writeOverlayJSON(ovFile, ovTPaths)
	if !o.noNative {
		wg.Add(1)
		go func() {
			defer wg.Done()
			nativeBin = filepath.Join(scratch, "native_"+u.Name+".test")
			cmd := exec.Command("go", "test", "-c", "-vet=off", "-overlay", ovFile, "-o", nativeBin, u.Pkg)
			cmd.Dir = repoDir
			cmd.Env = goEnv()
			out, err := cmd.CombinedOutput()
			if err != nil {
				nativeErr = fmt.Errorf("native build failed: %v\n%s", err, out)
			}
		}()
	}

	// static inventory of Cover labels and Assert messages in the harness
	cases := expandCases(u.Cases[o.tier])
	{
		var roots []*ssa.Function
		seenRoot := map[string]bool{}
		for _, c := range cases {
			name := c[0].(string)
			if fn := main.Func(name); fn != nil && !seenRoot[name] {
				seenRoot[name] = true
				roots = append(roots, fn)
			}
		}
		res.coverAll, res.assertAll = harnessInventory(main, roots)
	}
	type job struct {
		name  string
		entry *ssa.Function
		args  []int
	}
	var jobs []job
	for _, c := range cases {
		entry := c[0].(string)
		args := c[1].([]int)
		fn := main.Func(entry)
		if fn == nil {
			res.err = fmt.Errorf("entry %s not found in %s", entry, u.Pkg)
			return res
		}
		name := fmt.Sprintf("%s/%s%v", u.Name, entry, args)
		if o.caseSub != "" && !strings.Contains(name, o.caseSub) {
			continue
		}
		if st, ok := genStates[u.Name]; ok && len(args) > 0 {
			if why, broken := st.broken[args[0]]; broken {
				res.skipped = append(res.skipped, name+": not run: generated package accepted by the generator does not type-check ("+why+")")
				continue
			}
		}
		jobs = append(jobs, job{name, fn, args})
	}
	res.nCases = len(jobs)
	maxPaths := u.MaxPaths
	if maxPaths == 0 {
		maxPaths = 200000
	}
	maxSteps := u.MaxSteps
	if maxSteps == 0 {
		maxSteps = 5_000_000
	}
	jobCh := make(chan job)
	resCh := make(chan *CaseResult)
	nw := o.workers
	if nw > len(jobs) {
		nw = len(jobs)
	}
	if nw < 1 {
		nw = 1
	}
	var wwg sync.WaitGroup
	for w := 0; w < nw; w++ {
		wwg.Add(1)
		go func() {
			defer wwg.Done()
			cfg := &Config{listedKnown: listed, assertTimeoutS: 60, crossCheck: o.tier == "thorough", maxViolPerSite: 1,
				maxSteps: maxSteps, maxPaths: maxPaths, maxDepth: 400, pipeTimeoutMS: 10000, tier: o.tier, crossSolver: "z3", prefer: u.Prefer}
			if u.PipeTimeoutMS > 0 {
				cfg.pipeTimeoutMS = u.PipeTimeoutMS
			}
			if u.AssertTimeoutS > 0 {
				cfg.assertTimeoutS = u.AssertTimeoutS
			}
			if len(u.Links) > 0 {
				cfg.stubs = map[string]*ssa.Function{}
				for local, target := range u.Links {
					lf := main.Func(local)
					dot := strings.LastIndex(target, ".")
					var tf *ssa.Function
					if dot > 0 {
						for _, p := range prog.AllPackages() {
							if p.Pkg.Path() == target[:dot] {
								tf = p.Func(target[dot+1:])
							}
						}
					}
					if lf == nil || tf == nil {
						fmt.Fprintf(os.Stderr, "link %s -> %s: not found\n", local, target)
						cfg.stubMissing = append(cfg.stubMissing, local+" -> "+target)
						continue
					}
					cfg.stubs[fnKey(lf)] = tf
				}
			}
			if len(u.Stubs) > 0 {
				if cfg.stubs == nil {
					cfg.stubs = map[string]*ssa.Function{}
				}
				for k, v := range u.Stubs {
					if f := main.Func(v); f != nil {
						cfg.stubs[k] = f
					} else {
						fmt.Fprintf(os.Stderr, "stub %s: harness function %s not found\n", k, v)
						cfg.stubMissing = append(cfg.stubMissing, v)
					}
				}
			}
			in := NewInterp(prog, cfg)
			defer in.solver.Close()
			defer func() {
				if in.cross != nil {
					in.cross.Close()
				}
			}()
			if o.vector != "" {
				in.pinned = []uint64{}
				for _, f := range strings.Split(o.vector, ",") {
					if f = strings.TrimSpace(f); f != "" && f != "-" {
						v, _ := strconv.ParseUint(f, 10, 64)
						in.pinned = append(in.pinned, v)
					}
				}
			}
			for j := range jobCh {
				r := in.runCase(j.name, j.entry, j.args, deadline)
				if o.verbose {
					fmt.Fprintf(os.Stderr, "  case %s: paths=%d forks=%d queries=%d (sat %d unsat %d unk %d) solver=%.2fs wall=%.2fs viol=%d inconcl=%d\n",
						j.name, r.Stats.Paths, r.Stats.Forks, r.Solver.Queries, r.Solver.Sat, r.Solver.Unsat, r.Solver.Unknown, r.Solver.Time.Seconds(), r.Stats.Wall.Seconds(), len(r.Violations), len(r.Stats.Inconclusive))
				}
				resCh <- r
			}
		}()
	}
	go func() {
		for _, j := range jobs {
			jobCh <- j
		}
		close(jobCh)
		wwg.Wait()
		close(resCh)
	}()
	for r := range resCh {
		res.cases = append(res.cases, r)
	}
	sort.Slice(res.cases, func(i, j int) bool { return res.cases[i].Name < res.cases[j].Name })

	// native replay of witnesses and violations
	wg.Wait()
	if o.noNative {
		for _, c := range res.cases {
			res.unconf = append(res.unconf, c.Violations...)
		}
		return res
	}
	if nativeErr != nil {
		res.err = nativeErr
		return res
	}
	info := map[string]jobInfo{}
	for _, j := range jobs {
		info[j.name] = jobInfo{j.entry.Name(), j.args}
	}
	nativeReplay(res, scratch, nativeBin, info)
	// persist replay directories for confirmed violations
	for i := range res.confirmed {
		saveReplay(id, u, &res.confirmed[i], ovTPaths, scratch)
	}
	return res
}

type jobInfo struct {
	entry string
	args  []int
}

func writeOverlayJSON(path string, m map[string]string) {
	type ovj struct {
		Replace map[string]string
	}
	b, _ := json.MarshalIndent(ovj{m}, "", " ")
	os.WriteFile(path, b, 0o644)
}

// harnessInventory lists the literal labels of zzverif.Cover calls and the
// messages of zzverif.Assert calls in the harness functions statically
// reachable from the entry functions this tier runs.
func harnessInventory(pkg *ssa.Package, roots []*ssa.Function) (covers, asserts []string) {
	seenC, seenA := map[string]bool{}, map[string]bool{}
	visited := map[*ssa.Function]bool{}
	var visit func(fn *ssa.Function)
	visit = func(fn *ssa.Function) {
		if fn == nil || visited[fn] {
			return
		}
		visited[fn] = true
		pos := pkg.Prog.Fset.Position(fn.Pos())
		if pos.IsValid() && !strings.Contains(filepath.Base(pos.Filename), "zz_verif_") {
			return
		}
		for _, b := range fn.Blocks {
			for _, instr := range b.Instrs {
				if mc, ok := instr.(*ssa.MakeClosure); ok {
					if f, ok := mc.Fn.(*ssa.Function); ok {
						visit(f)
					}
				}
				call, ok := instr.(ssa.CallInstruction)
				if !ok {
					continue
				}
				callee := call.Common().StaticCallee()
				if callee == nil {
					continue
				}
				if callee.Pkg == nil || !strings.HasSuffix(callee.Pkg.Pkg.Path(), "/zzverif") {
					visit(callee)
					continue
				}
				args := call.Common().Args
				lit := func(i int) (string, bool) {
					if i >= len(args) {
						return "", false
					}
					c, ok := args[i].(*ssa.Const)
					if !ok || c.Value == nil {
						return "", false
					}
					s, err := strconv.Unquote(c.Value.ExactString())
					return s, err == nil
				}
				switch callee.Name() {
				case "Cover":
					if s, ok := lit(0); ok && !seenC[s] {
						seenC[s] = true
						covers = append(covers, s)
					}
				case "Assert":
					if s, ok := lit(1); ok && !seenA[s] {
						seenA[s] = true
						asserts = append(asserts, s)
					}
				}
			}
		}
		for _, af := range fn.AnonFuncs {
			visit(af)
		}
	}
	for _, r := range roots {
		visit(r)
	}
	sort.Strings(covers)
	sort.Strings(asserts)
	return
}

// compileOnlyUnit: every package the generator wrote must type-check and build against the ogen
// runtime (go build with the overlay); a package that does not is a violation whose replay is the spec.
func compileOnlyUnit(id, scratch string, u *UnitSpec, res *unitResult, listed map[string]bool) {
	st := genStates[u.Name]
	ovFile := filepath.Join(scratch, "overlay_"+u.Name+".json")
	writeOverlayJSON(ovFile, st.files)
	cr := &CaseResult{Name: u.Name + "/compile", Stats: newCaseStats()}
	// build every accepted package (and its generated tests, if any) - 8 at a time
	type buildRes struct {
		out []byte
		err error
	}
	results := make([]buildRes, len(st.accepted))
	sem := make(chan struct{}, 8)
	var bwg sync.WaitGroup
	for i, name := range st.accepted {
		bwg.Add(1)
		go func(i int, name string) {
			defer bwg.Done()
			sem <- struct{}{}
			defer func() { <-sem }()
			pkg := modPath + "/internal/zzgen/" + u.Name + "_" + name
			cmd := exec.Command("go", "build", "-overlay", ovFile, pkg)
			cmd.Dir = repoDir
			cmd.Env = goEnv()
			out, err := cmd.CombinedOutput()
			if err == nil && st.hasTests[name] {
				cmd = exec.Command("go", "test", "-c", "-vet=off", "-overlay", ovFile, "-o", filepath.Join(scratch, "t_"+u.Name+"_"+name+".test"), pkg)
				cmd.Dir = repoDir
				cmd.Env = goEnv()
				out, err = cmd.CombinedOutput()
				os.Remove(filepath.Join(scratch, "t_"+u.Name+"_"+name+".test"))
			}
			results[i] = buildRes{out, err}
		}(i, name)
	}
	bwg.Wait()
	for i, name := range st.accepted {
		pkg := modPath + "/internal/zzgen/" + u.Name + "_" + name
		out, err := results[i].out, results[i].err
		cr.Stats.Paths++
		cr.Stats.BranchPoints++
		if err == nil {
			res.nativeOK++
			if len(cr.Stats.Samples) < 3 {
				cr.Stats.Samples = append(cr.Stats.Samples, map[string]any{"generated_package": name, "go_build": "ok"})
			}
			continue
		}
		msg := "generated package does not build: " + firstLines(string(out), 3)
		v := Violation{Case: u.Name + "/" + name, Msg: msg, Kind: "build", Site: "go build " + pkg}
		key := "C02/generated-package-does-not-build:" + name
		if listed[key] {
			v.Knowns = []string{key}
		}
		// replay directory: the spec and the command
		replayCounter[id]++
		dir := filepath.Join(outDir, "replays", id, fmt.Sprintf("%03d", replayCounter[id]))
		os.RemoveAll(dir)
		os.MkdirAll(dir, 0o755)
		if b, err := os.ReadFile(st.specs[name]); err == nil {
			os.WriteFile(filepath.Join(dir, "spec.yml"), b, 0o644)
		}
		os.WriteFile(filepath.Join(dir, "README.txt"), []byte("generate spec.yml with the tree's generator (drivers/genrun) and go build the package:\n"+string(out)), 0o644)
		os.WriteFile(filepath.Join(dir, "replay.sh"), []byte("#!/bin/sh\ncat "+dir+"/README.txt\n"), 0o755)
		v.PathDesc = dir
		res.confirmed = append(res.confirmed, v)
	}
	for _, must := range u.Gen.MustAccept {
		found := false
		for _, a := range st.accepted {
			if a == must {
				found = true
			}
		}
		if !found {
			res.nativeBad = append(res.nativeBad, "vacuous: the undamaged document "+must+" is refused by the generator, so the fault matrix exercises nothing")
		}
	}
	for _, must := range u.Gen.MustAcceptProp {
		for _, rj := range st.rejected {
			if !strings.HasPrefix(rj, must+": ") {
				continue
			}
			v := Violation{Case: u.Name + "/" + must, Msg: "the generator refuses a document the property requires it to accept: " + firstLines(rj[len(must)+2:], 2), Kind: "build", Site: "generate " + must}
			replayCounter[id]++
			dir := filepath.Join(outDir, "replays", id, fmt.Sprintf("%03d", replayCounter[id]))
			os.RemoveAll(dir)
			os.MkdirAll(dir, 0o755)
			if b, err := os.ReadFile(st.specs[must]); err == nil {
				os.WriteFile(filepath.Join(dir, "spec.yml"), b, 0o644)
			}
			os.WriteFile(filepath.Join(dir, "README.txt"), []byte("run the tree's generator (drivers/genrun) on spec.yml:\n"+rj+"\n"), 0o644)
			os.WriteFile(filepath.Join(dir, "replay.sh"), []byte("#!/bin/sh\ncat "+dir+"/README.txt\n"), 0o755)
			v.PathDesc = dir
			res.confirmed = append(res.confirmed, v)
		}
	}
	// a generator that panics instead of returning a diagnostic breaks the property as well
	for _, rj := range st.rejected {
		if i := strings.Index(rj, ": PANIC: "); i > 0 {
			name := rj[:i]
			v := Violation{Case: u.Name + "/" + name, Msg: "the generator panicked instead of returning a diagnostic: " + firstLines(rj[i+2:], 2), Kind: "build", Site: "generate " + name}
			key := id + "/generator-panics:" + name
			if listed[key] {
				v.Knowns = []string{key}
			}
			replayCounter[id]++
			dir := filepath.Join(outDir, "replays", id, fmt.Sprintf("%03d", replayCounter[id]))
			os.RemoveAll(dir)
			os.MkdirAll(dir, 0o755)
			if b, err := os.ReadFile(st.specs[name]); err == nil {
				os.WriteFile(filepath.Join(dir, "spec.yml"), b, 0o644)
			}
			os.WriteFile(filepath.Join(dir, "README.txt"), []byte("run the tree's generator (drivers/genrun) on spec.yml:\n"+rj+"\n"), 0o644)
			os.WriteFile(filepath.Join(dir, "replay.sh"), []byte("#!/bin/sh\ncat "+dir+"/README.txt\n"), 0o755)
			v.PathDesc = dir
			res.confirmed = append(res.confirmed, v)
		}
	}
	res.nCases = len(st.accepted)
	res.cases = append(res.cases, cr)
}

func firstLines(s string, n int) string {
	ls := strings.Split(strings.TrimSpace(s), "\n")
	if len(ls) > n {
		ls = ls[:n]
	}
	return strings.Join(ls, " | ")
}
