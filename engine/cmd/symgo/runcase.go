package main

import (
	"fmt"
	"os"
	"runtime/debug"
	"strings"
	"time"

	"golang.org/x/tools/go/ssa"
)

type CaseResult struct {
	Name         string
	Stats        *CaseStats
	Violations   []Violation
	InitNotes    []string
	Solver       SolverStats
	CacheHits    int
	CrossChecked int
}

func (in *Interp) runCase(name string, fn *ssa.Function, args []int, deadline time.Time) *CaseResult {
	t0 := time.Now()
	in.caseName = name
	in.deadline = deadline
	in.cs = newCaseStats()
	in.violations = nil
	in.violSeen = map[string]int{}
	in.pending = []pendingPath{{}}
	for _, m := range in.cfg.stubMissing {
		in.cs.Inconclusive = append(in.cs.Inconclusive, "configuration: stub function "+m+" not found in the harness package")
	}
	in.cacheHits, in.unknownFeas, in.crossChecked = 0, 0, 0
	before := in.solver.Stats
	before.Fallback = map[string]int{}
	for k, v := range in.solver.Stats.Fallback {
		before.Fallback[k] = v
	}
	argv := make([]Value, len(args))
	for i, a := range args {
		argv[i] = in.tb.Const(64, uint64(int64(a)))
	}
	for len(in.pending) > 0 {
		if in.cs.Paths >= in.cfg.maxPaths {
			in.cs.Inconclusive = append(in.cs.Inconclusive, fmt.Sprintf("path budget %d exhausted (%d pending)", in.cfg.maxPaths, len(in.pending)))
			break
		}
		if time.Now().After(deadline) {
			in.cs.Inconclusive = append(in.cs.Inconclusive, fmt.Sprintf("time budget exhausted after %d paths (%d pending)", in.cs.Paths, len(in.pending)))
			break
		}
		p := in.pending[len(in.pending)-1]
		in.pending = in.pending[:len(in.pending)-1]
		in.runPath(fn, argv, p)
	}
	in.pending = nil
	in.cs.Wall = time.Since(t0)
	after := in.solver.Stats
	diff := SolverStats{Queries: after.Queries - before.Queries, Sat: after.Sat - before.Sat, Unsat: after.Unsat - before.Unsat,
		Unknown: after.Unknown - before.Unknown, Errors: after.Errors - before.Errors, Time: after.Time - before.Time, MaxQuery: after.MaxQuery, Fallback: map[string]int{}}
	for k, v := range after.Fallback {
		if d := v - before.Fallback[k]; d > 0 {
			diff.Fallback[k] = d
		}
	}
	if in.unknownFeas > 0 {
		in.cs.Inconclusive = append(in.cs.Inconclusive, fmt.Sprintf("%d feasibility queries answered unknown (branches kept)", in.unknownFeas))
	}
	if intDiff {
		fmt.Fprintf(os.Stderr, "INT-DIFF case %s: %d queries agreed\n", name, in.intDiffOK)
		in.intDiffOK = 0
	}
	notes := in.initNotes
	return &CaseResult{Name: name, Stats: in.cs, Violations: in.violations, InitNotes: notes, Solver: diff, CacheHits: in.cacheHits, CrossChecked: in.crossChecked}
}

func (in *Interp) runPath(fn *ssa.Function, argv []Value, p pendingPath) {
	in.pc = in.pc[:0]
	in.prefix = p.prefix
	in.dpos = 0
	in.trace = nil
	in.models = in.models[:0]
	if p.model != nil {
		in.models = append(in.models, p.model)
	}
	in.inputs = nil
	in.steps = 0
	in.depth = 0
	in.knowns = nil
	in.pathCovers = nil
	in.pathMaybeInfeasible = false
	in.deferOwner = nil
	in.errWhere = ""
	in.errStack = nil
	in.ctxBounds = map[*Term]urange{}
	in.ctxMemo = map[int]urange{}
	in.epoch++
	in.cs.Paths++
	status := "ok"
	func() {
		defer func() {
			if r := recover(); r != nil {
				switch x := r.(type) {
				case pathEnd:
					status = x.reason
				case unsupportedErr:
					status = "unsupported"
					in.cs.Inconclusive = append(in.cs.Inconclusive, "unsupported: "+x.what+" at "+in.errWhere)
					if debugStack {
						fmt.Fprintf(os.Stderr, "STACK for %q:\n  %s\n", x.what, strings.Join(in.errStack, "\n  "))
					}
				case budgetErr:
					status = "budget"
					in.cs.Inconclusive = append(in.cs.Inconclusive, "budget: "+x.what+" at "+in.errWhere)
					if x.what == "instruction budget" || x.what == "call depth" {
						// candidate for non-termination / unbounded recursion: a concrete input of this path is run
						// natively under a time limit; only a native run that does not finish either (time limit, or the
						// process dies of stack exhaustion) is reported (kind "hang")
						if m, res := in.pathModel(); res == Sat {
							msg := fmt.Sprintf("does not terminate: %d SSA instructions executed on one path without reaching the end of the harness", in.cfg.maxSteps)
							if x.what == "call depth" {
								msg = fmt.Sprintf("unbounded recursion: more than %d nested calls on one path", in.cfg.maxDepth)
							}
							in.recordViolation(m, msg, "hang", in.errWhere, nil)
						}
					}
				case *goPanic:
					status = "panic"
					in.handlePanic(x)
				default:
					fmt.Fprintf(os.Stderr, "ENGINE ERROR in case %s at %s: %v\n%s\n", in.caseName, in.errWhere, r, debug.Stack())
					status = "engine-error"
					in.cs.Inconclusive = append(in.cs.Inconclusive, fmt.Sprintf("engine error: %v at %s", r, in.errWhere))
				}
			}
		}()
		in.inPath = true
		defer func() { in.inPath = false }()
		in.callFunction(fn, argv, nil)
	}()
	in.inPath = false
	in.cs.Steps += in.steps
	if in.steps > in.cs.MaxPathSteps {
		in.cs.MaxPathSteps = in.steps
	}
	feasibleKnown := !in.pathMaybeInfeasible
	if status != "infeasible" && status != "engine-error" {
		if !feasibleKnown {
			if _, res := in.pathModel(); res == Sat {
				feasibleKnown = true
			}
		}
		if feasibleKnown {
			for _, l := range in.pathCovers {
				in.cs.Covers[l]++
			}
		}
	}
	// sample witnesses of completed paths for native validation
	if status == "ok" && feasibleKnown && in.wantWitness() {
		if m, res := in.pathModel(); res == Sat {
			w := Witness{Case: in.caseName, Vector: in.vector(m), Status: "ok", Covers: append([]string(nil), in.pathCovers...)}
			in.cs.Witnesses = append(in.cs.Witnesses, w)
			if len(in.cs.Samples) < 3 {
				in.cs.Samples = append(in.cs.Samples, map[string]any{"case": in.caseName, "path_constraints": len(in.pc), "decisions": len(in.trace),
					"input_vector": vecStr(w.Vector), "covers": w.Covers, "pc_head": pcHead(in.pc)})
			}
		}
	}
	if in.pinned != nil {
		fmt.Printf("ENGINE status=%s covers=%v observed=%q\n", status, in.pathCovers, strings.Join(in.observed, ";"))
		for _, v := range in.violations {
			fmt.Printf("ENGINE violation: %s %s\n", v.Kind, v.Msg)
		}
		for _, s := range in.cs.Inconclusive {
			fmt.Printf("ENGINE inconclusive: %s\n", s)
		}
	}
	in.observed = nil
	in.rollback()
}

func pcHead(pc []*Term) []string {
	var out []string
	for i, t := range pc {
		if i >= 4 {
			break
		}
		s := t.String()
		if len(s) > 160 {
			s = s[:160] + "…"
		}
		out = append(out, s)
	}
	return out
}

func vecStr(v []uint64) string {
	parts := make([]string, len(v))
	for i, x := range v {
		parts[i] = fmt.Sprint(x)
	}
	if len(parts) == 0 {
		return "-"
	}
	return strings.Join(parts, ",")
}

func (in *Interp) wantWitness() bool {
	n := in.cs.Paths
	return len(in.cs.Witnesses) < 4 || (n%97 == 0 && len(in.cs.Witnesses) < 40)
}
