package main

// Models of functions that are assembly, runtime, unsafe or irrelevant
// formatting. Everything else is executed from its real SSA body.

import (
	"math"
	"fmt"
	"go/types"
	"os"
	"strconv"
	"strings"

	"golang.org/x/tools/go/ssa"
)

type modelFn func(in *Interp, fn *ssa.Function, args []Value) Value

var modelTab map[string]modelFn

const zzPkgSuffix = "/zzverif."

func (in *Interp) lookupModel(fn *ssa.Function) modelFn {
	key := fnKey(fn)
	if m, ok := modelTab[key]; ok {
		return m
	}
	if i := strings.Index(key, zzPkgSuffix); i >= 0 {
		if m, ok := modelTab["zzverif."+key[i+len(zzPkgSuffix):]]; ok {
			return m
		}
	}
	return nil
}

func (in *Interp) i64(v uint64) *Term { return in.tb.Const(64, v) }

func (in *Interp) concInt(v Value, what string) int {
	t := v.(*Term)
	return int(int64(sextTo64(in.concretize(t, what), t.w)))
}

func sextTo64(v uint64, w int) uint64 { return uint64(sext(v, w)) }

func (in *Interp) concStr(v Value, what string) string {
	s := v.(StrV)
	var sb strings.Builder
	for _, b := range s.b {
		sb.WriteByte(byte(in.concretize(b, what)))
	}
	return sb.String()
}

func (in *Interp) mustConcStr(v Value, what string) string {
	s, ok := v.(StrV).Conc()
	if !ok {
		panic(unsupported(what + ": symbolic string where a concrete one is required"))
	}
	return s
}

func (in *Interp) bytesOf(v Value) []*Term {
	switch a := v.(type) {
	case StrV:
		return a.b
	case SliceV:
		out := make([]*Term, a.len)
		for i := range out {
			out[i] = in.load(in.elem(a.arr, a.off+i)).(*Term)
		}
		return out
	}
	panic(fmt.Sprintf("bytesOf %T", v))
}

func (in *Interp) mkByteSlice(b []*Term) SliceV {
	arr := in.newArr(types.Typ[types.Uint8], len(b))
	for i, t := range b {
		in.elem(arr, i).v = t
	}
	if len(b) == 0 {
		return SliceV{arr: arr}
	}
	return SliceV{arr: arr, len: len(b), cap: len(b)}
}

// indexByte: first i with b[i]==c, forking per position.
func (in *Interp) indexByte(b []*Term, c *Term) int {
	for i, x := range b {
		if in.branch(in.tb.Eq(x, c)) {
			return i
		}
	}
	return -1
}

func (in *Interp) lookupNamed(pkgPath, name string) types.Type {
	p := in.prog.ImportedPackage(pkgPath)
	if p == nil {
		panic(unsupported("package " + pkgPath + " not loaded"))
	}
	m := p.Type(name)
	if m == nil {
		panic(unsupported("type " + pkgPath + "." + name + " not found"))
	}
	return m.Type()
}

// newErrorString builds errors.New(msg) without running it.
func (in *Interp) newErrorString(msg string) Value {
	t := in.lookupNamed("errors", "errorString")
	c := in.newCell(t)
	in.store(c.sub[0], in.strConst(msg))
	return IfaceV{t: types.NewPointer(t), v: PtrV{c: c}}
}

func (in *Interp) newWrapError(msg string, inner Value) Value {
	t := in.lookupNamed("fmt", "wrapError")
	c := in.newCell(t)
	in.store(c.sub[0], in.strConst(msg))
	in.store(c.sub[1], inner)
	return IfaceV{t: types.NewPointer(t), v: PtrV{c: c}}
}

func variadicArgs(in *Interp, v Value) []Value {
	s, ok := v.(SliceV)
	if !ok {
		return nil
	}
	return in.sliceElems(s)
}

func (in *Interp) isErrorIface(v Value) (IfaceV, bool) {
	iv, ok := v.(IfaceV)
	if !ok || iv.t == nil {
		return iv, false
	}
	errT := types.Universe.Lookup("error").Type()
	if in.implements(iv.t, errT) {
		return iv, true
	}
	return iv, false
}

// callMethod invokes method name on a dynamic value if it exists.
func (in *Interp) findMethod(t types.Type, name string) *ssa.Function {
	ms := in.prog.MethodSets.MethodSet(t)
	for i := 0; i < ms.Len(); i++ {
		sel := ms.At(i)
		if sel.Obj().Name() == name {
			return in.prog.MethodValue(sel)
		}
	}
	return nil
}

func (in *Interp) errorsIs(err, target IfaceV) bool {
	for depth := 0; depth < 64; depth++ {
		if err.t == nil {
			return target.t == nil && false
		}
		if target.t != nil && types.Identical(err.t, target.t) && types.Comparable(err.t) {
			if in.branch(in.equalValues(err.v, target.v, err.t)) {
				return true
			}
		}
		if m := in.findMethod(err.t, "Is"); m != nil && m.Signature.Params().Len() == 1 && m.Signature.Results().Len() == 1 {
			r := in.callFunction(m, []Value{err.v, target}, nil)
			if rt, ok := r.(*Term); ok && in.branch(rt) {
				return true
			}
		}
		m := in.findMethod(err.t, "Unwrap")
		if m == nil {
			return false
		}
		r := in.callFunction(m, []Value{err.v}, nil)
		switch x := r.(type) {
		case IfaceV:
			if x.t == nil {
				return false
			}
			err = x
		case SliceV:
			for _, e := range in.sliceElems(x) {
				if ev, ok := e.(IfaceV); ok && ev.t != nil && in.errorsIs(ev, target) {
					return true
				}
			}
			return false
		default:
			return false
		}
	}
	panic(budgetErr{"errors.Is chain too long"})
}

func (in *Interp) errorsAs(err IfaceV, target IfaceV) bool {
	if target.t == nil {
		panic(&goPanic{site: in.where(), val: IfaceV{t: types.Typ[types.String], v: in.strConst("errors: target cannot be nil")}})
	}
	pt, ok := target.t.Underlying().(*types.Pointer)
	if !ok {
		panic(&goPanic{site: in.where(), val: IfaceV{t: types.Typ[types.String], v: in.strConst("errors: target must be a non-nil pointer")}})
	}
	tp := target.v.(PtrV)
	et := pt.Elem()
	for depth := 0; depth < 64; depth++ {
		if err.t == nil {
			return false
		}
		if types.IsInterface(et) {
			if in.implements(err.t, et) {
				in.store(tp.c, err)
				return true
			}
		} else if types.Identical(err.t, et) {
			in.store(tp.c, err.v)
			return true
		}
		if m := in.findMethod(err.t, "As"); m != nil && m.Signature.Params().Len() == 1 {
			r := in.callFunction(m, []Value{err.v, target}, nil)
			if rt, ok := r.(*Term); ok && in.branch(rt) {
				return true
			}
		}
		m := in.findMethod(err.t, "Unwrap")
		if m == nil {
			return false
		}
		r := in.callFunction(m, []Value{err.v}, nil)
		switch x := r.(type) {
		case IfaceV:
			if x.t == nil {
				return false
			}
			err = x
		case SliceV:
			for _, e := range in.sliceElems(x) {
				if ev, ok := e.(IfaceV); ok && ev.t != nil && in.errorsAs(ev, target) {
					return true
				}
			}
			return false
		default:
			return false
		}
	}
	panic(budgetErr{"errors.As chain too long"})
}

func mFmtString(in *Interp, fn *ssa.Function, args []Value) Value {
	if fn.Name() == "Sprintf" {
		if format, ok := args[0].(StrV).Conc(); ok {
			return in.sprintf(format, variadicArgs(in, args[1]))
		}
	}
	return in.strConst("<fmt>")
}

// sprintf implements the simple verbs on simple operands; anything else
// becomes the opaque fragment "<?>" (a property that depends on such text is
// caught by the native replay as an engine mismatch, never passed).
func (in *Interp) sprintf(format string, args []Value) StrV {
	if os.Getenv("SYMGO_ERRTRACE") != "" {
		fmt.Fprintf(os.Stderr, "ERRTRACE sprintf(%q) at %s\n", format, in.where())
	}
	var out []*Term
	lit := func(s string) {
		out = append(out, in.strConst(s).b...)
	}
	ai := 0
	for i := 0; i < len(format); i++ {
		c := format[i]
		if c != '%' {
			out = append(out, in.tb.Const(8, uint64(c)))
			continue
		}
		i++
		if i >= len(format) {
			lit("%!(NOVERB)")
			break
		}
		verb := format[i]
		if verb == '%' {
			lit("%")
			continue
		}
		if ai >= len(args) {
			lit("<?>")
			continue
		}
		a := args[ai]
		ai++
		var dynT types.Type
		if iv, ok := a.(IfaceV); ok {
			a = iv.v
			if iv.t == nil {
				lit("<nil>")
				continue
			}
			dynT = iv.t
		}
		switch x := a.(type) {
		case StrV:
			switch verb {
			case 's', 'v':
				out = append(out, x.b...)
			case 'q':
				if cs, ok := x.Conc(); ok {
					lit(strconv.Quote(cs))
				} else {
					lit("<?>")
				}
			default:
				lit("<?>")
			}
		case *Term:
			if !x.IsConst() || (verb != 'd' && verb != 'v') {
				lit("<?>")
				continue
			}
			if x.w == 0 {
				lit(strconv.FormatBool(x.val != 0))
			} else if bt, ok := underlyingBasic(dynT); ok && bt.Info()&types.IsInteger != 0 {
				// a concrete integer whose dynamic type says whether it is signed
				if bt.Info()&types.IsUnsigned != 0 {
					lit(strconv.FormatUint(x.val&mask(x.w), 10))
				} else {
					v := x.val & mask(x.w)
					if x.w < 64 && v&(1<<uint(x.w-1)) != 0 {
						v |= ^mask(x.w)
					}
					lit(strconv.FormatInt(int64(v), 10))
				}
			} else {
				lit("<?>") // signedness is not known here
			}
		default:
			lit("<?>")
		}
	}
	return StrV{out}
}

func mNop(in *Interp, fn *ssa.Function, args []Value) Value { return in.zeroResults(fn) }

func mErrorf(in *Interp, fn *ssa.Function, args []Value) Value {
	format, _ := args[0].(StrV).Conc()
	va := variadicArgs(in, args[1])
	if os.Getenv("SYMGO_ERRTRACE") != "" {
		fmt.Fprintf(os.Stderr, "ERRTRACE fmt.Errorf(%q) at %s\n", format, in.where())
	}
	if strings.Contains(format, "%w") {
		for _, a := range va {
			if ev, ok := in.isErrorIface(a); ok {
				return in.newWrapError("<fmt>", ev)
			}
		}
	}
	return in.newErrorString("<fmt>")
}

func (in *Interp) atomicLoad(args []Value) Value {
	p := args[0].(PtrV)
	if p.c == nil {
		panic(in.rtPanic("nil pointer dereference in atomic op"))
	}
	return in.load(p.c)
}

func init() {
	modelTab = map[string]modelFn{
		// ---------------- harness intrinsics
		"zzverif.Byte":   func(in *Interp, fn *ssa.Function, a []Value) Value { return in.fresh(8) },
		"zzverif.Uint8":  func(in *Interp, fn *ssa.Function, a []Value) Value { return in.fresh(8) },
		"zzverif.Int8":   func(in *Interp, fn *ssa.Function, a []Value) Value { return in.fresh(8) },
		"zzverif.Int16":  func(in *Interp, fn *ssa.Function, a []Value) Value { return in.fresh(16) },
		"zzverif.Uint16": func(in *Interp, fn *ssa.Function, a []Value) Value { return in.fresh(16) },
		"zzverif.Int32":  func(in *Interp, fn *ssa.Function, a []Value) Value { return in.fresh(32) },
		"zzverif.Uint32": func(in *Interp, fn *ssa.Function, a []Value) Value { return in.fresh(32) },
		"zzverif.Int64":  func(in *Interp, fn *ssa.Function, a []Value) Value { return in.fresh(64) },
		"zzverif.Uint64": func(in *Interp, fn *ssa.Function, a []Value) Value { return in.fresh(64) },
		"zzverif.Int":    func(in *Interp, fn *ssa.Function, a []Value) Value { return in.fresh(64) },
		"zzverif.Uint":   func(in *Interp, fn *ssa.Function, a []Value) Value { return in.fresh(64) },
		"zzverif.Bool": func(in *Interp, fn *ssa.Function, a []Value) Value {
			v := in.fresh(8)
			return in.tb.Eq(in.tb.Extract(v, 0, 0), in.tb.Const(1, 1))
		},
		"zzverif.IntRange": func(in *Interp, fn *ssa.Function, a []Value) Value {
			lo, hi := a[0].(*Term), a[1].(*Term)
			v := in.fresh(64)
			in.assume(in.tb.And(in.tb.Bin(OpSLe, lo, v), in.tb.Bin(OpSLe, v, hi)))
			return in.tb.Const(64, in.concretize(v, "IntRange"))
		},
		"zzverif.Bytes": func(in *Interp, fn *ssa.Function, a []Value) Value {
			n := in.concInt(a[0], "Bytes(n)")
			b := make([]*Term, n)
			for i := range b {
				b[i] = in.fresh(8)
			}
			return in.mkByteSlice(b)
		},
		"zzverif.String": func(in *Interp, fn *ssa.Function, a []Value) Value {
			n := in.concInt(a[0], "String(n)")
			b := make([]*Term, n)
			for i := range b {
				b[i] = in.fresh(8)
			}
			return StrV{b}
		},
		"zzverif.Assume": func(in *Interp, fn *ssa.Function, a []Value) Value {
			in.assume(a[0].(*Term))
			return nil
		},
		"zzverif.Assert": func(in *Interp, fn *ssa.Function, a []Value) Value {
			msg, _ := a[1].(StrV).Conc()
			in.decideAssert(a[0].(*Term), msg, "assert")
			return nil
		},
		"zzverif.Fail": func(in *Interp, fn *ssa.Function, a []Value) Value {
			msg, _ := a[0].(StrV).Conc()
			in.decideAssert(in.tb.False, msg, "assert")
			return nil
		},
		"zzverif.Cover": func(in *Interp, fn *ssa.Function, a []Value) Value {
			l, _ := a[0].(StrV).Conc()
			in.pathCovers = append(in.pathCovers, l)
			return nil
		},
		"zzverif.Known": func(in *Interp, fn *ssa.Function, a []Value) Value {
			k, _ := a[0].(StrV).Conc()
			// a later Known with the same key replaces the earlier condition (lets a harness scope a region to one assertion)
			for i := range in.knowns {
				if in.knowns[i].key == k {
					in.knowns[i].cond = a[1].(*Term)
					return nil
				}
			}
			in.knowns = append(in.knowns, knownCond{k, a[1].(*Term)})
			return nil
		},
		"zzverif.Observe": func(in *Interp, fn *ssa.Function, a []Value) Value {
			l, _ := a[0].(StrV).Conc()
			v := a[1]
			if iv, ok := v.(IfaceV); ok {
				v = iv.v
			}
			in.observed = append(in.observed, l+"="+in.render(v))
			return nil
		},
		"zzverif.And": func(in *Interp, fn *ssa.Function, a []Value) Value { return in.tb.And(a[0].(*Term), a[1].(*Term)) },
		"zzverif.Or":  func(in *Interp, fn *ssa.Function, a []Value) Value { return in.tb.Or(a[0].(*Term), a[1].(*Term)) },
		"zzverif.Not": func(in *Interp, fn *ssa.Function, a []Value) Value { return in.tb.Not(a[0].(*Term)) },
		"zzverif.Implies": func(in *Interp, fn *ssa.Function, a []Value) Value {
			return in.tb.Implies(a[0].(*Term), a[1].(*Term))
		},
		"zzverif.Iff": func(in *Interp, fn *ssa.Function, a []Value) Value { return in.tb.Iff(a[0].(*Term), a[1].(*Term)) },
		"zzverif.IteByte": func(in *Interp, fn *ssa.Function, a []Value) Value {
			return in.tb.Ite(a[0].(*Term), a[1].(*Term), a[2].(*Term))
		},
		"zzverif.IteInt": func(in *Interp, fn *ssa.Function, a []Value) Value {
			return in.tb.Ite(a[0].(*Term), a[1].(*Term), a[2].(*Term))
		},
		"zzverif.IteInt64": func(in *Interp, fn *ssa.Function, a []Value) Value {
			return in.tb.Ite(a[0].(*Term), a[1].(*Term), a[2].(*Term))
		},
		"zzverif.IteUint64": func(in *Interp, fn *ssa.Function, a []Value) Value {
			return in.tb.Ite(a[0].(*Term), a[1].(*Term), a[2].(*Term))
		},
		"zzverif.IteBool": func(in *Interp, fn *ssa.Function, a []Value) Value {
			return in.tb.Ite(a[0].(*Term), a[1].(*Term), a[2].(*Term))
		},
		"zzverif.EqString": func(in *Interp, fn *ssa.Function, a []Value) Value { return in.strEq(a[0].(StrV), a[1].(StrV)) },
		"zzverif.EqBytes": func(in *Interp, fn *ssa.Function, a []Value) Value {
			return in.strEq(StrV{in.bytesOf(a[0])}, StrV{in.bytesOf(a[1])})
		},
		"zzverif.Symbolic": func(in *Interp, fn *ssa.Function, a []Value) Value { return in.tb.True },

		// ---------------- internal/bytealg (assembly)
		"internal/bytealg.IndexByte": func(in *Interp, fn *ssa.Function, a []Value) Value {
			return in.i64(uint64(int64(in.indexByte(in.bytesOf(a[0]), a[1].(*Term)))))
		},
		"internal/bytealg.IndexByteString": func(in *Interp, fn *ssa.Function, a []Value) Value {
			return in.i64(uint64(int64(in.indexByte(in.bytesOf(a[0]), a[1].(*Term)))))
		},
		"internal/bytealg.Count": func(in *Interp, fn *ssa.Function, a []Value) Value {
			n := 0
			for _, x := range in.bytesOf(a[0]) {
				if in.branch(in.tb.Eq(x, a[1].(*Term))) {
					n++
				}
			}
			return in.i64(uint64(n))
		},
		"internal/bytealg.CountString": func(in *Interp, fn *ssa.Function, a []Value) Value {
			n := 0
			for _, x := range in.bytesOf(a[0]) {
				if in.branch(in.tb.Eq(x, a[1].(*Term))) {
					n++
				}
			}
			return in.i64(uint64(n))
		},
		"internal/bytealg.Equal": func(in *Interp, fn *ssa.Function, a []Value) Value {
			return in.strEq(StrV{in.bytesOf(a[0])}, StrV{in.bytesOf(a[1])})
		},
		"internal/bytealg.Compare": func(in *Interp, fn *ssa.Function, a []Value) Value {
			x, y := StrV{in.bytesOf(a[0])}, StrV{in.bytesOf(a[1])}
			lt := in.strLess(x, y, false)
			eq := in.strEq(x, y)
			return in.tb.Ite(lt, in.tb.Const(64, ^uint64(0)), in.tb.Ite(eq, in.tb.Const(64, 0), in.tb.Const(64, 1)))
		},
		"internal/bytealg.Index":       mIndex,
		"internal/bytealg.IndexString": mIndex,
		"internal/bytealg.MakeNoZero": func(in *Interp, fn *ssa.Function, a []Value) Value {
			n := in.concInt(a[0], "MakeNoZero")
			arr := in.newArr(types.Typ[types.Uint8], n)
			return SliceV{arr: arr, len: n, cap: n}
		},
		"internal/stringslite.Index": mIndex,
		"strings.Index":              mIndex,
		"bytes.Index":                mIndex,

		// ---------------- strings.Builder (unsafe)
		"(*strings.Builder).copyCheck": mNop,
		"(*strings.Builder).String": func(in *Interp, fn *ssa.Function, a []Value) Value {
			p := a[0].(PtrV)
			if p.c == nil {
				panic(in.rtPanic("nil Builder"))
			}
			buf := in.load(p.c.sub[1]).(SliceV)
			return StrV{in.bytesOf(buf)}
		},

		// ---------------- formatting: opaque text
		"fmt.Sprintf":                       mFmtString,
		"fmt.Sprint":                        mFmtString,
		"fmt.Sprintln":                      mFmtString,
		"fmt.Errorf":                        mErrorf,
		"fmt.Fprintf":                       mFprint,
		"fmt.Fprint":                        mFprint,
		"fmt.Fprintln":                      mFprint,
		"fmt.Printf":                        mNop,
		"fmt.Println":                       mNop,
		"fmt.Print":                         mNop,
		"github.com/go-faster/errors.Trace": func(in *Interp, fn *ssa.Function, a []Value) Value { return in.tb.False },
		"github.com/go-faster/errors.FormatError": mNop,

		"errors.Is": func(in *Interp, fn *ssa.Function, a []Value) Value {
			e, t := a[0].(IfaceV), a[1].(IfaceV)
			if e.t == nil || t.t == nil {
				return in.tb.Bool(e.t == nil && t.t == nil)
			}
			return in.tb.Bool(in.errorsIs(e, t))
		},
		"errors.As": func(in *Interp, fn *ssa.Function, a []Value) Value {
			e := a[0].(IfaceV)
			if e.t == nil {
				return in.tb.False
			}
			return in.tb.Bool(in.errorsAs(e, a[1].(IfaceV)))
		},

		// ---------------- sync / atomic: sequential semantics
		"(*sync.Mutex).Lock":      mNop,
		"(*sync.Mutex).Unlock":    mNop,
		"(*sync.Mutex).TryLock":   func(in *Interp, fn *ssa.Function, a []Value) Value { return in.tb.True },
		"(*sync.RWMutex).Lock":    mNop,
		"(*sync.RWMutex).Unlock":  mNop,
		"(*sync.RWMutex).RLock":   mNop,
		"(*sync.RWMutex).RUnlock": mNop,
		"(*sync.Once).Do": func(in *Interp, fn *ssa.Function, a []Value) Value {
			p := a[0].(PtrV)
			// done flag lives in the first leaf of the Once struct
			flag := firstIntLeaf(p.c)
			if flag == nil {
				panic(unsupported("sync.Once layout"))
			}
			if t, ok := flag.v.(*Term); ok && t.IsConst() && t.val != 0 {
				return nil
			}
			in.store(flag, in.tb.Const(flag.v.(*Term).w, 1))
			in.callValue(a[1], nil, nil)
			return nil
		},
		"(*sync.Pool).Get": func(in *Interp, fn *ssa.Function, a []Value) Value {
			p := a[0].(PtrV)
			// field New is the last field
			nf := in.load(p.c.sub[len(p.c.sub)-1])
			if _, isNil := nf.(nilFunc); isNil {
				return IfaceV{}
			}
			return in.callValue(nf, nil, nil)
		},
		"(*sync.Pool).Put":       mNop,
		"(*sync.WaitGroup).Add":  mNop,
		"(*sync.WaitGroup).Done": mNop,
		"(*sync.WaitGroup).Wait": mNop,

		"sync/atomic.LoadInt32":   func(in *Interp, fn *ssa.Function, a []Value) Value { return in.atomicLoad(a) },
		"sync/atomic.LoadInt64":   func(in *Interp, fn *ssa.Function, a []Value) Value { return in.atomicLoad(a) },
		"sync/atomic.LoadUint32":  func(in *Interp, fn *ssa.Function, a []Value) Value { return in.atomicLoad(a) },
		"sync/atomic.LoadUint64":  func(in *Interp, fn *ssa.Function, a []Value) Value { return in.atomicLoad(a) },
		"sync/atomic.LoadUintptr": func(in *Interp, fn *ssa.Function, a []Value) Value { return in.atomicLoad(a) },
		"sync/atomic.LoadPointer": func(in *Interp, fn *ssa.Function, a []Value) Value { return in.atomicLoad(a) },
		"sync/atomic.StoreInt32":  mAtomicStore, "sync/atomic.StoreInt64": mAtomicStore,
		"sync/atomic.StoreUint32": mAtomicStore, "sync/atomic.StoreUint64": mAtomicStore,
		"sync/atomic.StoreUintptr": mAtomicStore, "sync/atomic.StorePointer": mAtomicStore,
		"sync/atomic.AddInt32": mAtomicAdd, "sync/atomic.AddInt64": mAtomicAdd,
		"sync/atomic.AddUint32": mAtomicAdd, "sync/atomic.AddUint64": mAtomicAdd, "sync/atomic.AddUintptr": mAtomicAdd,
		"sync/atomic.CompareAndSwapInt32": mAtomicCAS, "sync/atomic.CompareAndSwapInt64": mAtomicCAS,
		"sync/atomic.CompareAndSwapUint32": mAtomicCAS, "sync/atomic.CompareAndSwapUint64": mAtomicCAS,
		"sync/atomic.CompareAndSwapPointer": mAtomicCAS, "sync/atomic.CompareAndSwapUintptr": mAtomicCAS,
		"sync/atomic.SwapInt32": mAtomicSwap, "sync/atomic.SwapInt64": mAtomicSwap,
		"sync/atomic.SwapUint32": mAtomicSwap, "sync/atomic.SwapUint64": mAtomicSwap, "sync/atomic.SwapPointer": mAtomicSwap,

		// ---------------- unique (netip's interned zone handles)
		"unique.Make": func(in *Interp, fn *ssa.Function, a []Value) Value {
			key := fn.Signature.Params().At(0).Type().String() + "|" + in.render(a[0])
			if strings.Contains(key, "<sym") {
				panic(unsupported("unique.Make of a symbolic value"))
			}
			h, ok := in.uniq[key]
			if !ok {
				save := in.epoch
				in.epoch = 0
				c := in.newCell(fn.Signature.Params().At(0).Type())
				in.epoch = save
				c.v, c.sub = nil, c.sub
				in.storeRaw(c, a[0])
				h = &StructV{f: []Value{PtrV{c: c}}}
				in.uniq[key] = h
			}
			return h
		},
		"(unique.Handle).Value": func(in *Interp, fn *ssa.Function, a []Value) Value {
			h := a[0].(*StructV)
			return in.load(h.f[0].(PtrV).c)
		},

		// ---------------- logging: no-ops
		"(*go.uber.org/zap.Logger).Debug": mNop, "(*go.uber.org/zap.Logger).Info": mNop, "(*go.uber.org/zap.Logger).Warn": mNop,
		"(*go.uber.org/zap.Logger).Error": mNop,
		"go.uber.org/zap.Duration":        func(in *Interp, fn *ssa.Function, a []Value) Value { return in.zeroResults(fn) },
		"go.uber.org/zap.String":          func(in *Interp, fn *ssa.Function, a []Value) Value { return in.zeroResults(fn) },
		"go.uber.org/zap.Error":           func(in *Interp, fn *ssa.Function, a []Value) Value { return in.zeroResults(fn) },
		"log.Printf":                      mNop, "log.Println": mNop, "log.Print": mNop,

		// ---------------- runtime / misc
		"runtime.Callers":                            func(in *Interp, fn *ssa.Function, a []Value) Value { return in.i64(0) },
		"runtime.KeepAlive":                          mNop,
		"runtime.SetFinalizer":                       mNop,
		"runtime.GC":                                 mNop,
		"runtime.Gosched":                            mNop,
		"internal/race.Enabled":                      mNop,
		"internal/godebug.(*Setting).Value":          func(in *Interp, fn *ssa.Function, a []Value) Value { return StrV{} },
		"internal/godebug.(*Setting).IncNonDefault":  mNop,
		"time.Now":                                   func(in *Interp, fn *ssa.Function, a []Value) Value { return in.zeroResults(fn) },
		"time.Since":                                 func(in *Interp, fn *ssa.Function, a []Value) Value { return in.i64(0) },
		// IEEE-754 bit casts of CONCRETE floats (math's bodies use unsafe pointer casts); a symbolic integer
		// argument stays unsupported
		"math.Float64bits": func(in *Interp, fn *ssa.Function, a []Value) Value {
			return in.tb.Const(64, math.Float64bits(float64(a[0].(FloatV))))
		},
		"math.Float32bits": func(in *Interp, fn *ssa.Function, a []Value) Value {
			return in.tb.Const(32, uint64(math.Float32bits(float32(a[0].(FloatV)))))
		},
		"math.Float64frombits": func(in *Interp, fn *ssa.Function, a []Value) Value {
			t := a[0].(*Term)
			if !t.IsConst() {
				panic(unsupported("math.Float64frombits of a symbolic value"))
			}
			return FloatV(math.Float64frombits(t.val))
		},
		"math.Float32frombits": func(in *Interp, fn *ssa.Function, a []Value) Value {
			t := a[0].(*Term)
			if !t.IsConst() {
				panic(unsupported("math.Float32frombits of a symbolic value"))
			}
			return FloatV(float64(math.Float32frombits(uint32(t.val))))
		},
		// environment assumption: the process's local time zone is UTC (initLocal reads $TZ and /etc/localtime;
		// an empty Location is UTC by time's own rules). The native replay runs with TZ=UTC.
		"time.initLocal": mNop,
		"(*github.com/go-faster/yaml.Node).ShortTag": func(in *Interp, fn *ssa.Function, a []Value) Value { return in.strConst("<tag>") },
	}
	for k, v := range modelTab {
		if v == nil {
			delete(modelTab, k)
		}
	}
}

func firstIntLeaf(c *Cell) *Cell {
	switch c.kind {
	case 0:
		if t, ok := c.v.(*Term); ok && t.w > 0 {
			return c
		}
		return nil
	case 1:
		for _, s := range c.sub {
			if r := firstIntLeaf(s); r != nil {
				return r
			}
		}
	}
	return nil
}

func mAtomicStore(in *Interp, fn *ssa.Function, a []Value) Value {
	p := a[0].(PtrV)
	in.store(p.c, a[1])
	return nil
}

func mAtomicAdd(in *Interp, fn *ssa.Function, a []Value) Value {
	p := a[0].(PtrV)
	nv := in.tb.Bin(OpAdd, in.load(p.c).(*Term), a[1].(*Term))
	in.store(p.c, nv)
	return nv
}

func mAtomicSwap(in *Interp, fn *ssa.Function, a []Value) Value {
	p := a[0].(PtrV)
	old := in.load(p.c)
	in.store(p.c, a[1])
	return old
}

func mAtomicCAS(in *Interp, fn *ssa.Function, a []Value) Value {
	p := a[0].(PtrV)
	cur := in.load(p.c)
	if in.branch(in.equalValues(cur, a[1], p.c.t)) {
		in.store(p.c, a[2])
		return in.tb.True
	}
	return in.tb.False
}

// mIndex: substring search, forking per position on a single Bool term.
func mIndex(in *Interp, fn *ssa.Function, a []Value) Value {
	h, n := in.bytesOf(a[0]), in.bytesOf(a[1])
	if len(n) == 0 {
		return in.i64(0)
	}
	for i := 0; i+len(n) <= len(h); i++ {
		if in.branch(in.strEq(StrV{h[i : i+len(n)]}, StrV{n})) {
			return in.i64(uint64(i))
		}
	}
	return in.i64(^uint64(0))
}

// mFprint writes an opaque text through the io.Writer.
func mFprint(in *Interp, fn *ssa.Function, a []Value) Value {
	w := a[0].(IfaceV)
	if w.t == nil {
		panic(in.rtPanic("nil io.Writer"))
	}
	m := in.findMethod(w.t, "Write")
	if m == nil {
		panic(unsupported("Fprint: writer without Write"))
	}
	r := in.callFunction(m, []Value{w.v, in.mkByteSlice(in.strConst("<fmt>").b)}, nil)
	return r
}

// render prints a value the way fmt %v would for the simple kinds used by Observe.
func (in *Interp) render(v Value) string {
	switch x := v.(type) {
	case *Term:
		if !x.IsConst() {
			return "<sym>"
		}
		if x.w == 0 {
			if x.val != 0 {
				return "true"
			}
			return "false"
		}
		return fmt.Sprint(x.val)
	case StrV:
		if s, ok := x.Conc(); ok {
			return s
		}
		return "<symstr>"
	case SliceV:
		parts := []string{}
		for _, e := range in.sliceElems(x) {
			parts = append(parts, in.render(e))
		}
		return "[" + strings.Join(parts, " ") + "]"
	case IfaceV:
		if x.t == nil {
			return "<nil>"
		}
		return in.render(x.v)
	case PtrV:
		if x.c == nil {
			return "<nil>"
		}
		return "&" + in.render(in.load(x.c))
	case *StructV:
		parts := []string{}
		for _, e := range x.f {
			parts = append(parts, in.render(e))
		}
		return "{" + strings.Join(parts, " ") + "}"
	}
	return describe(v)
}

func underlyingBasic(t types.Type) (*types.Basic, bool) {
	if t == nil {
		return nil, false
	}
	b, ok := t.Underlying().(*types.Basic)
	return b, ok
}
