package main

// Generated-code units: the real generator of /repo's working tree is run
// (genrun, compiled inside the ogen module through an overlay) on specs
// produced by the unit's spec_cmd; the generated packages are overlaid as
// virtual packages internal/zzgen/<unit>_<name>, each gets a copy of the
// unit's in-package harness, and a generated hub package dispatches the
// engine's entry calls to them (one packages.Load, one native test binary).

import (
	"encoding/json"
	"fmt"
	"os"
	"os/exec"
	"path/filepath"
	"sort"
	"strings"
)

type genPackage struct {
	Name    string            `json:"name"`
	Spec    string            `json:"spec"`
	ExtraGo map[string]string `json:"extra_go"`
	Enable  []string          `json:"enable"`
	Disable []string          `json:"disable"`
	Ignore  []string          `json:"ignore_not_implemented"` // gen.Options.Generator.IgnoreNotImplemented
	Isolate bool              `json:"isolate"`                // run the generator for this spec in a process of its own (a fatal error - stack exhaustion - cannot be recovered in process)
	Meta    json.RawMessage   `json:"meta"`
}

type genOutput struct {
	Packages []genPackage          `json:"packages"`
	Cases    map[string][]CaseSpec `json:"cases"`
	Bounds   map[string]any        `json:"bounds"`
}

type genState struct {
	files    map[string]string // virtual path -> real path
	rejected []string          // packages the generator refused (name: error)
	accepted []string
	specs    map[string]string
	hasTests map[string]bool // compile-only units: the generator wrote _test.go files (example tests)
	gout     genOutput
	okPkg    map[string]bool
	udir     string
	broken   map[int]string // package index -> first type error (accepted by the generator, does not type-check)
}

var genStates = map[string]*genState{}

func (u UnitSpec) genOverlay() map[string]string {
	if st, ok := genStates[u.Name]; ok {
		return st.files
	}
	return nil
}

func buildGenrun(scratch string) (string, error) {
	bin := filepath.Join(scratch, "genrun.bin")
	if _, err := os.Stat(bin); err == nil {
		return bin, nil
	}
	ov := filepath.Join(scratch, "genrun_overlay.json")
	writeOverlayJSON(ov, map[string]string{
		filepath.Join(repoDir, "internal/zzgenrun/main.go"): filepath.Join(verifDir, "drivers/genrun/main.go"),
	})
	cmd := exec.Command("go", "build", "-overlay", ov, "-o", bin, modPath+"/internal/zzgenrun")
	cmd.Dir = repoDir
	cmd.Env = goEnv()
	out, err := cmd.CombinedOutput()
	if err != nil {
		return "", fmt.Errorf("building genrun against /repo failed: %v\n%s", err, out)
	}
	return bin, nil
}

func generateUnit(hdir, scratch string, u *UnitSpec, tier string, seed int64) error {
	g := u.Gen
	st := &genState{files: map[string]string{}, specs: map[string]string{}, hasTests: map[string]bool{}}
	genStates[u.Name] = st
	var gout genOutput
	if len(g.SpecCmd) > 0 {
		argv := make([]string, len(g.SpecCmd))
		for i, a := range g.SpecCmd {
			a = strings.ReplaceAll(a, "{tier}", tier)
			a = strings.ReplaceAll(a, "{seed}", fmt.Sprint(seed))
			argv[i] = a
		}
		cmd := exec.Command(argv[0], argv[1:]...)
		cmd.Dir = hdir
		cmd.Stderr = os.Stderr
		out, err := cmd.Output()
		if err != nil {
			return fmt.Errorf("spec_cmd failed: %v", err)
		}
		if err := json.Unmarshal(out, &gout); err != nil {
			return fmt.Errorf("spec_cmd output: %v", err)
		}
	} else {
		data, err := os.ReadFile(filepath.Join(hdir, g.Spec))
		if err != nil {
			return err
		}
		gout.Packages = []genPackage{{Name: g.Name, Spec: string(data)}}
	}
	if gout.Cases != nil {
		u.Cases = gout.Cases
	}
	if gout.Bounds != nil {
		u.genBounds = gout.Bounds
	}
	bin, err := buildGenrun(scratch)
	if err != nil {
		return err
	}
	type job struct {
		Name    string   `json:"name"`
		Spec    string   `json:"spec"`
		Out     string   `json:"out"`
		Pkg     string   `json:"pkg"`
		Enable  []string `json:"enable"`
		Disable []string `json:"disable"`
		Ignore  []string `json:"ignore_not_implemented"`
	}
	udir := filepath.Join(scratch, "gen_"+u.Name)
	os.MkdirAll(udir, 0o755)
	var jobs []job
	for _, p := range gout.Packages {
		sp := filepath.Join(udir, p.Name+".yml")
		os.WriteFile(sp, []byte(p.Spec), 0o644)
		st.specs[p.Name] = sp
		dis := append([]string{"ogen/otel"}, p.Disable...)
		dis = append(dis, g.Features...)
		jobs = append(jobs, job{Name: p.Name, Spec: sp, Out: filepath.Join(udir, p.Name), Pkg: p.Name, Enable: p.Enable, Disable: dis, Ignore: p.Ignore})
	}
	type genResult struct {
		Name string `json:"name"`
		OK   bool   `json:"ok"`
		Err  string `json:"err"`
	}
	var results []genResult
	isolated := map[string]bool{}
	for _, p := range gout.Packages {
		if p.Isolate {
			isolated[p.Name] = true
		}
	}
	var batch []job
	for _, j := range jobs {
		if !isolated[j.Name] {
			batch = append(batch, j)
			continue
		}
		jb, _ := json.Marshal([]job{j})
		jf := filepath.Join(udir, "job_"+j.Name+".json")
		os.WriteFile(jf, jb, 0o644)
		var stderr strings.Builder
		cmd := exec.Command(bin, jf)
		cmd.Stderr = &stderr
		out, err := cmd.Output()
		var one []genResult
		if err != nil || json.Unmarshal(out, &one) != nil || len(one) != 1 {
			msg := stderr.String()
			if len(msg) > 300 {
				msg = msg[:300]
			}
			results = append(results, genResult{Name: j.Name, OK: false, Err: "PANIC: the generator process died (" + fmt.Sprint(err) + "): " + strings.ReplaceAll(msg, "\n", " | ")})
			continue
		}
		results = append(results, one[0])
	}
	jb, _ := json.Marshal(batch)
	jf := filepath.Join(udir, "jobs.json")
	os.WriteFile(jf, jb, 0o644)
	runOne := func(j job) genResult {
		jb, _ := json.Marshal([]job{j})
		jf := filepath.Join(udir, "job_"+j.Name+".json")
		os.WriteFile(jf, jb, 0o644)
		var stderr strings.Builder
		cmd := exec.Command(bin, jf)
		cmd.Stderr = &stderr
		out, err := cmd.Output()
		var one []genResult
		if err != nil || json.Unmarshal(out, &one) != nil || len(one) != 1 {
			msg := stderr.String()
			if len(msg) > 300 {
				msg = msg[:300]
			}
			return genResult{Name: j.Name, OK: false, Err: "PANIC: the generator process died (" + fmt.Sprint(err) + "): " + strings.ReplaceAll(msg, "\n", " | ")}
		}
		return one[0]
	}
	var batchRes []genResult
	var berr strings.Builder
	cmd := exec.Command(bin, jf)
	cmd.Stderr = &berr
	out, err := cmd.Output()
	if err == nil {
		err = json.Unmarshal(out, &batchRes)
	}
	if err != nil {
		// the batch process died (a fatal error such as stack exhaustion cannot be recovered in process): run every
		// job in a process of its own to find the documents that kill the generator
		fmt.Fprintf(os.Stderr, "genrun batch died (%v); re-running %d jobs in isolation\n", err, len(batch))
		batchRes = make([]genResult, len(batch))
		sem := make(chan struct{}, 12)
		done := make(chan int)
		for i := range batch {
			go func(i int) {
				sem <- struct{}{}
				batchRes[i] = runOne(batch[i])
				<-sem
				done <- i
			}(i)
		}
		for range batch {
			<-done
		}
	}
	results = append(results, batchRes...)
	okPkg := map[string]bool{}
	for _, r := range results {
		if r.OK {
			okPkg[r.Name] = true
			st.accepted = append(st.accepted, r.Name)
		} else {
			st.rejected = append(st.rejected, r.Name+": "+r.Err)
		}
	}
	// overlay: generated files, harness copies, extra files
	for i, p := range gout.Packages {
		if !okPkg[p.Name] {
			continue
		}
		vdir := filepath.Join(repoDir, "internal/zzgen", u.Name+"_"+p.Name)
		ents, err := os.ReadDir(filepath.Join(udir, p.Name))
		if err != nil {
			return err
		}
		for _, e := range ents {
			if strings.HasSuffix(e.Name(), ".go") && !strings.HasSuffix(e.Name(), "_test.go") {
				st.files[filepath.Join(vdir, e.Name())] = filepath.Join(udir, p.Name, e.Name())
			} else if strings.HasSuffix(e.Name(), "_test.go") && u.CompileOnly {
				st.files[filepath.Join(vdir, e.Name())] = filepath.Join(udir, p.Name, e.Name())
				st.hasTests[p.Name] = true
			}
		}
		for _, h := range u.Harness {
			src, err := os.ReadFile(filepath.Join(hdir, h))
			if err != nil {
				return err
			}
			txt := strings.Replace(string(src), "package PKGNAME", "package "+p.Name, 1)
			dst := filepath.Join(udir, p.Name+"_zz_verif_"+filepath.Base(h))
			os.WriteFile(dst, []byte(txt), 0o644)
			st.files[filepath.Join(vdir, "zz_verif_"+filepath.Base(h))] = dst
		}
		var names []string
		for n := range p.ExtraGo {
			names = append(names, n)
		}
		sort.Strings(names)
		for _, n := range names {
			txt := strings.Replace(p.ExtraGo[n], "package PKGNAME", "package "+p.Name, 1)
			dst := filepath.Join(udir, p.Name+"_zz_verif_"+n)
			os.WriteFile(dst, []byte(txt), 0o644)
			st.files[filepath.Join(vdir, "zz_verif_"+n)] = dst
		}
		_ = i
	}
	st.gout, st.okPkg, st.udir, st.broken = gout, okPkg, udir, map[int]string{}
	st.writeHub(u)
	hubDir := "internal/zzgen/" + u.Name + "_hub"
	u.Pkg = modPath + "/" + hubDir
	u.Dir = hubDir
	if len(st.accepted) == 0 {
		return fmt.Errorf("the generator rejected every spec of the unit: %v", st.rejected)
	}
	if u.CompileOnly {
		delete(st.files, filepath.Join(repoDir, hubDir, "zz_verif_hub.go"))
	}
	return nil
}

// writeHub (re)writes the hub package for the packages currently marked ok.
func (st *genState) writeHub(u *UnitSpec) {
	g := u.Gen
	gout, okPkg, udir := st.gout, st.okPkg, st.udir
	var hub strings.Builder
	hub.WriteString("// Code generated by symgo (hub of generated packages). DO NOT EDIT.\npackage zzhub\n\nimport (\n")
	for i, p := range gout.Packages {
		if okPkg[p.Name] {
			fmt.Fprintf(&hub, "\tp%d %q\n", i, modPath+"/internal/zzgen/"+u.Name+"_"+p.Name)
		}
	}
	hub.WriteString(")\n\n")
	// hub entries
	var entryNames []string
	for n := range g.HubEntry {
		entryNames = append(entryNames, n)
	}
	sort.Strings(entryNames)
	hub.WriteString("var ZZEntries = map[string]func([]int){\n")
	for _, n := range entryNames {
		ar := g.HubEntry[n]
		var args []string
		for k := 0; k <= ar; k++ {
			args = append(args, fmt.Sprintf("a[%d]", k))
		}
		fmt.Fprintf(&hub, "\t%q: func(a []int) { %s(%s) },\n", n, n, strings.Join(args, ", "))
	}
	hub.WriteString("}\n\n")
	for _, n := range entryNames {
		ar := g.HubEntry[n]
		var params, pass []string
		for k := 0; k < ar; k++ {
			params = append(params, fmt.Sprintf("a%d int", k))
			pass = append(pass, fmt.Sprintf("a%d", k))
		}
		fmt.Fprintf(&hub, "func %s(set int%s) {\n\tswitch set {\n", n, prefixComma(strings.Join(params, ", ")))
		for i, p := range gout.Packages {
			if okPkg[p.Name] {
				fmt.Fprintf(&hub, "\tcase %d:\n\t\tp%d.%s(%s)\n", i, i, n, strings.Join(pass, ", "))
			}
		}
		hub.WriteString("\t}\n}\n\n")
	}
	hubPath := filepath.Join(udir, "zz_verif_hub.go")
	os.WriteFile(hubPath, []byte(hub.String()), 0o644)
	hubDir := "internal/zzgen/" + u.Name + "_hub"
	st.files[filepath.Join(repoDir, hubDir, "zz_verif_hub.go")] = hubPath
}

// dropBroken removes generated packages that do not type-check from the unit (their cases become inconclusive) so
// that the other packages of the unit can still be checked. Returns false when nothing usable is left.
func (st *genState) dropBroken(u *UnitSpec, bad map[string]string) bool {
	n := 0
	for i, p := range st.gout.Packages {
		path := modPath + "/internal/zzgen/" + u.Name + "_" + p.Name
		if msg, ok := bad[path]; ok && st.okPkg[p.Name] {
			st.okPkg[p.Name] = false
			st.broken[i] = p.Name + ": " + msg
			prefix := filepath.Join(repoDir, "internal/zzgen", u.Name+"_"+p.Name) + string(filepath.Separator)
			for k := range st.files {
				if strings.HasPrefix(k, prefix) {
					delete(st.files, k)
				}
			}
			n++
		}
	}
	left := 0
	for _, ok := range st.okPkg {
		if ok {
			left++
		}
	}
	if n == 0 || left == 0 {
		return false
	}
	st.writeHub(u)
	return true
}

func prefixComma(s string) string {
	if s == "" {
		return ""
	}
	return ", " + s
}
