package main

// generated-code units: run the real generator (genrun, built against /repo's
// working tree) and overlay its output as a virtual package inside the ogen
// module.

func generateUnit(hdir, scratch string, u *UnitSpec) error { return nil }

func (u UnitSpec) genOverlay() map[string]string { return nil }
