// regexrun runs the real ogenregex.Convert/Compile of /repo's working tree (and regexp2 in
// ECMAScript|Unicode mode as the second oracle) on patterns / (pattern, subject) pairs given as JSON.
// Compiled inside the ogen module through a go build -overlay (virtual directory internal/zzregexrun).
package main

import (
	"encoding/json"
	"fmt"
	"os"
	"reflect"
	"regexp"
	"regexp/syntax"
	"unicode"
	"unsafe"

	"github.com/dlclark/regexp2"

	"github.com/ogen-go/ogen/ogenregex"
)

type in struct {
	Patterns []string    `json:"patterns"`
	Matches  [][2]string `json:"matches"`
}

type patOut struct {
	Pattern    string `json:"pattern"`
	ConvertOK  bool   `json:"convert_ok"`
	Converted  string `json:"converted"`
	GoCompiles bool   `json:"go_compiles"`
	Engine     string `json:"engine"` // go, regexp2, error
	Executed   string `json:"executed,omitempty"` // text of the *regexp.Regexp the returned value really holds
	AST        *node  `json:"ast,omitempty"`      // regexp/syntax.Parse(Executed, Perl): the real engine's own reading
	StringOK   bool   `json:"string_ok"`
	Err        string `json:"err,omitempty"`
}

type matchOut struct {
	Ogen    string `json:"ogen"`    // "true", "false", or "error: ..."
	Regexp2 string `json:"regexp2"` // likewise
}

// node is the JSON form of a regexp/syntax.Regexp (Go's own parser = the front end of the engine ogen runs).
type node struct {
	Op  string  `json:"op"`
	R   []int   `json:"r,omitempty"` // class: lo,hi pairs
	Min int     `json:"min,omitempty"`
	Max int     `json:"max,omitempty"`
	Sub []*node `json:"sub,omitempty"`
}

func foldClass(r rune) []int {
	out := []int{int(r), int(r)}
	for f := unicode.SimpleFold(r); f != r; f = unicode.SimpleFold(f) {
		out = append(out, int(f), int(f))
	}
	return out
}

func toNode(re *syntax.Regexp) *node {
	n := &node{}
	for _, s := range re.Sub {
		n.Sub = append(n.Sub, toNode(s))
	}
	switch re.Op {
	case syntax.OpNoMatch:
		n.Op = "nomatch"
	case syntax.OpEmptyMatch:
		n.Op = "empty"
	case syntax.OpLiteral:
		n.Op = "cat"
		for _, r := range re.Rune {
			c := &node{Op: "cc", R: []int{int(r), int(r)}}
			if re.Flags&syntax.FoldCase != 0 {
				c.R = foldClass(r)
			}
			n.Sub = append(n.Sub, c)
		}
	case syntax.OpCharClass:
		n.Op = "cc"
		for _, r := range re.Rune {
			n.R = append(n.R, int(r))
		}
	case syntax.OpAnyCharNotNL:
		n.Op = "anynl"
	case syntax.OpAnyChar:
		n.Op = "any"
	case syntax.OpBeginLine:
		n.Op = "bol"
	case syntax.OpEndLine:
		n.Op = "eol"
	case syntax.OpBeginText:
		n.Op = "bot"
	case syntax.OpEndText:
		n.Op = "eot"
	case syntax.OpWordBoundary:
		n.Op = "wb"
	case syntax.OpNoWordBoundary:
		n.Op = "nwb"
	case syntax.OpCapture:
		n.Op = "cap"
	case syntax.OpStar:
		n.Op = "star"
	case syntax.OpPlus:
		n.Op = "plus"
	case syntax.OpQuest:
		n.Op = "quest"
	case syntax.OpRepeat:
		n.Op, n.Min, n.Max = "rep", re.Min, re.Max
	case syntax.OpConcat:
		n.Op = "cat"
	case syntax.OpAlternate:
		n.Op = "alt"
	default:
		n.Op = "unknown:" + re.Op.String()
	}
	return n
}

// executedExp digs the *regexp.Regexp out of the value ogenregex.Compile returned (unexported field
// of an unexported type), so that what is validated is the expression that really runs.
func executedExp(re any) (*regexp.Regexp, bool) {
	v := reflect.ValueOf(re)
	if v.Kind() != reflect.Struct {
		return nil, false
	}
	want := reflect.TypeOf((*regexp.Regexp)(nil))
	for i := 0; i < v.NumField(); i++ {
		if v.Field(i).Type() == want {
			return (*regexp.Regexp)(unsafe.Pointer(v.Field(i).Pointer())), true
		}
	}
	return nil, false
}

func b2s(b bool, err error) string {
	if err != nil {
		return "error: " + err.Error()
	}
	if b {
		return "true"
	}
	return "false"
}

func safe(f func()) (perr string) {
	defer func() {
		if r := recover(); r != nil {
			perr = fmt.Sprint("PANIC: ", r)
		}
	}()
	f()
	return ""
}

func main() {
	data, err := os.ReadFile(os.Args[1])
	if err != nil {
		panic(err)
	}
	var q in
	if err := json.Unmarshal(data, &q); err != nil {
		panic(err)
	}
	out := struct {
		Patterns []patOut   `json:"patterns"`
		Matches  []matchOut `json:"matches"`
	}{}
	for _, p := range q.Patterns {
		o := patOut{Pattern: p}
		if perr := safe(func() {
			o.Converted, o.ConvertOK = ogenregex.Convert(p)
			if o.ConvertOK {
				_, cerr := regexp.Compile(o.Converted)
				o.GoCompiles = cerr == nil
			}
			re, err := ogenregex.Compile(p)
			if err != nil {
				o.Engine = "error"
				o.Err = err.Error()
			} else if exp, ok := executedExp(re); ok && exp != nil {
				// the value holds a *regexp.Regexp: the linear-time engine runs
				o.Engine = "go"
				o.StringOK = re.String() == p
				o.Executed = exp.String()
				if parsed, perr := syntax.Parse(o.Executed, syntax.Perl); perr == nil {
					o.AST = toNode(parsed)
				}
			} else {
				o.Engine = "regexp2"
				o.StringOK = re.String() == p
			}
		}); perr != "" {
			o.Engine = "panic"
			o.Err = perr
		}
		out.Patterns = append(out.Patterns, o)
	}
	for _, m := range q.Matches {
		var mo matchOut
		if perr := safe(func() {
			re, err := ogenregex.Compile(m[0])
			if err != nil {
				mo.Ogen = "error: " + err.Error()
			} else {
				mo.Ogen = b2s(re.MatchString(m[1]))
			}
			r2, err := regexp2.Compile(m[0], regexp2.ECMAScript|regexp2.Unicode)
			if err != nil {
				mo.Regexp2 = "error: " + err.Error()
			} else {
				mo.Regexp2 = b2s(r2.MatchString(m[1]))
			}
		}); perr != "" {
			mo.Ogen = perr
		}
		out.Matches = append(out.Matches, mo)
	}
	b, _ := json.Marshal(out)
	os.Stdout.Write(b)
}
