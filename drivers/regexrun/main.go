// regexrun runs the real ogenregex.Convert/Compile of /repo's working tree (and regexp2 in
// ECMAScript|Unicode mode as the second oracle) on patterns / (pattern, subject) pairs given as JSON.
// Compiled inside the ogen module through a go build -overlay (virtual directory internal/zzregexrun).
package main

import (
	"encoding/json"
	"fmt"
	"os"
	"regexp"

	"github.com/dlclark/regexp2"

	"github.com/ogen-go/ogen/ogenregex"
)

type in struct {
	Patterns []string    `json:"patterns"`
	Matches  [][2]string `json:"matches"`
}

type patOut struct {
	Pattern    string `json:"pattern"`
	ConvertOK  bool   `json:"convert_ok"`
	Converted  string `json:"converted"`
	GoCompiles bool   `json:"go_compiles"`
	Engine     string `json:"engine"` // go, regexp2, error
	StringOK   bool   `json:"string_ok"`
	Err        string `json:"err,omitempty"`
}

type matchOut struct {
	Ogen    string `json:"ogen"`    // "true", "false", or "error: ..."
	Regexp2 string `json:"regexp2"` // likewise
}

func b2s(b bool, err error) string {
	if err != nil {
		return "error: " + err.Error()
	}
	if b {
		return "true"
	}
	return "false"
}

func safe(f func()) (perr string) {
	defer func() {
		if r := recover(); r != nil {
			perr = fmt.Sprint("PANIC: ", r)
		}
	}()
	f()
	return ""
}

func main() {
	data, err := os.ReadFile(os.Args[1])
	if err != nil {
		panic(err)
	}
	var q in
	if err := json.Unmarshal(data, &q); err != nil {
		panic(err)
	}
	out := struct {
		Patterns []patOut   `json:"patterns"`
		Matches  []matchOut `json:"matches"`
	}{}
	for _, p := range q.Patterns {
		o := patOut{Pattern: p}
		if perr := safe(func() {
			o.Converted, o.ConvertOK = ogenregex.Convert(p)
			if o.ConvertOK {
				_, cerr := regexp.Compile(o.Converted)
				o.GoCompiles = cerr == nil
			}
			re, err := ogenregex.Compile(p)
			switch {
			case err != nil:
				o.Engine = "error"
				o.Err = err.Error()
			case o.ConvertOK && o.GoCompiles:
				o.Engine = "go"
				o.StringOK = re.String() == p
			default:
				o.Engine = "regexp2"
				o.StringOK = re.String() == p
			}
		}); perr != "" {
			o.Engine = "panic"
			o.Err = perr
		}
		out.Patterns = append(out.Patterns, o)
	}
	for _, m := range q.Matches {
		var mo matchOut
		if perr := safe(func() {
			re, err := ogenregex.Compile(m[0])
			if err != nil {
				mo.Ogen = "error: " + err.Error()
			} else {
				mo.Ogen = b2s(re.MatchString(m[1]))
			}
			r2, err := regexp2.Compile(m[0], regexp2.ECMAScript|regexp2.Unicode)
			if err != nil {
				mo.Regexp2 = "error: " + err.Error()
			} else {
				mo.Regexp2 = b2s(r2.MatchString(m[1]))
			}
		}); perr != "" {
			mo.Ogen = perr
		}
		out.Matches = append(out.Matches, mo)
	}
	b, _ := json.Marshal(out)
	os.Stdout.Write(b)
}
