// genrun runs the real generator (ogen.Parse -> gen.NewGenerator -> WriteSource)
// of /repo's working tree on a list of specs. It is compiled inside the ogen
// module through a go build -overlay (virtual directory internal/zzgenrun).
package main

import (
	"encoding/json"
	"fmt"
	"os"
	"sync"

	"github.com/ogen-go/ogen"
	"github.com/ogen-go/ogen/gen"
	"github.com/ogen-go/ogen/gen/genfs"
)

type job struct {
	Name    string   `json:"name"`
	Spec    string   `json:"spec"` // path of the spec file
	Out     string   `json:"out"`  // target directory
	Pkg     string   `json:"pkg"`  // Go package name
	Enable  []string `json:"enable"`
	Disable []string `json:"disable"`
	Ignore  []string `json:"ignore_not_implemented"`
}

type result struct {
	Name string `json:"name"`
	OK   bool   `json:"ok"`
	Err  string `json:"err,omitempty"`
}

func run(j job) (err error) {
	defer func() {
		if r := recover(); r != nil {
			err = fmt.Errorf("PANIC: %v", r)
		}
	}()
	data, err := os.ReadFile(j.Spec)
	if err != nil {
		return err
	}
	spec, err := ogen.Parse(data)
	if err != nil {
		return fmt.Errorf("parse: %w", err)
	}
	var opts gen.Options
	fo := &gen.FeatureOptions{Enable: gen.FeatureSet{}, Disable: gen.FeatureSet{}}
	for _, f := range j.Enable {
		fo.Enable[f] = struct{}{}
	}
	for _, f := range j.Disable {
		fo.Disable[f] = struct{}{}
	}
	opts.Generator.Features = fo
	opts.Generator.IgnoreNotImplemented = j.Ignore
	g, err := gen.NewGenerator(spec, opts)
	if err != nil {
		return fmt.Errorf("build IR: %w", err)
	}
	if err := os.MkdirAll(j.Out, 0o755); err != nil {
		return err
	}
	fs := genfs.FormattedSource{Format: false, Root: j.Out}
	if err := g.WriteSource(fs, j.Pkg); err != nil {
		return fmt.Errorf("write: %w", err)
	}
	return nil
}

func main() {
	data, err := os.ReadFile(os.Args[1])
	if err != nil {
		panic(err)
	}
	var jobs []job
	if err := json.Unmarshal(data, &jobs); err != nil {
		panic(err)
	}
	var out []result
	// the jobs are independent generator runs: eight at a time
	out = make([]result, len(jobs))
	sem := make(chan struct{}, 8)
	var wg sync.WaitGroup
	for i, j := range jobs {
		wg.Add(1)
		go func(i int, j job) {
			defer wg.Done()
			sem <- struct{}{}
			defer func() { <-sem }()
			r := result{Name: j.Name, OK: true}
			if err := run(j); err != nil {
				r.OK = false
				r.Err = err.Error()
			}
			out[i] = r
		}(i, j)
	}
	wg.Wait()
	b, _ := json.MarshalIndent(out, "", " ")
	os.Stdout.Write(b)
}
