#!/usr/bin/env python3
"""Writes check.json for C06: the case list is the finite (location, style, explode, shape) table
crossed with value-shape skeletons (item/field counts and lengths); values themselves are symbolic."""
import json, itertools, os

def skeletons(shape, maxlen, maxitems, maxtotal, namesets):
    out = []
    if shape == 0:
        for l in range(0, maxlen + 1):
            out.append((l, -1, -1, 0))
    elif shape == 1:
        out.append((-1, -1, -1, 0))
        for n in range(1, maxitems + 1):
            for lens in itertools.product(range(0, maxlen + 1), repeat=n):
                if sum(lens) <= maxtotal:
                    l = list(lens) + [-1] * (3 - n)
                    out.append((l[0], l[1], l[2], 0))
    else:
        out.append((-1, -1, -1, 0))  # an object with no field set
        for ns in namesets:
            for l1 in range(0, maxlen + 1):
                out.append((l1, -1, -1, ns))
                for l2 in range(0, maxlen + 1):
                    if l1 + l2 <= maxtotal:
                        out.append((l1, l2, -1, ns))
    return out

# every syntactically possible entry; the harness asks the real admission table which ones are admitted
ENTRIES = []
for style in range(3):
    for exp in (0, 1):
        for shape in range(3):
            ENTRIES.append((0, style, exp, shape))
for style in range(4):
    for exp in (0, 1):
        for shape in range(3):
            ENTRIES.append((1, style, exp, shape))
for exp in (0, 1):
    for shape in range(3):
        ENTRIES.append((2, 0, exp, shape))
        ENTRIES.append((3, 0, exp, shape))

def cases(maxlen, maxitems, maxtotal, namesets):
    args = []
    for (loc, style, exp, shape) in ENTRIES:
        for (l1, l2, l3, ns) in skeletons(shape, maxlen, maxitems, maxtotal, namesets):
            args.append([loc, style, exp, shape, l1, l2, l3, ns])
    return args

quick = cases(2, 3, 3, [0, 1, 2])
thorough = cases(3, 3, 3, [0, 1, 2, 3, 4]) + [[loc, style, exp, 0, 4, -1, -1, 0] for (loc, style, exp, shape) in ENTRIES if shape == 0]
spec = {
 "property": "C06",
 "level": "model_checking",
 "time_budget_s": {"quick": 400, "thorough": 4800},
 "units": [
  {"name": "codec", "pkg": "github.com/ogen-go/ogen/openapi/parser", "dir": "openapi/parser", "harness": ["harness_codec.go"],
   "links": {"zzGenSupported": "github.com/ogen-go/ogen/gen.isSupportedParamStyle"}, "extra_pkgs": ["github.com/ogen-go/ogen/gen"],
   "cases": {"quick": [{"entry": "HCodec", "args": quick}], "thorough": [{"entry": "HCodec", "args": thorough}]}},
  {"name": "cookie-escape", "pkg": "github.com/ogen-go/ogen/uri", "dir": "uri", "harness": ["harness_cookie.go"],
   "cases": {"quick": [{"entry": "HCookieEscape", "product": [[0, 5]]}, {"entry": "HCookieUnescape", "product": [[0, 5]]}],
             "thorough": [{"entry": "HCookieEscape", "product": [[0, 8]]}, {"entry": "HCookieUnescape", "product": [[0, 7]]}]}},
 ],
 "bounds": {
  "table": "all 48 syntactically possible (location, style, explode, shape) entries; each is first classified by the REAL openapi/parser.validateParamStyle (executed from SSA) and driven only when admitted and by the REAL gen.isSupportedParamStyle (reached through go:linkname natively, redirected to its SSA body under the engine)",
  "values": "quick: scalar 0..2 symbolic bytes, arrays of 0..3 items, objects of 0..2 fields (0: none of the optional fields set), at most 3 symbolic bytes in total; thorough: item/field lengths to 3 with at most 3 symbolic bytes in total, scalars to 4 bytes, two more field-name sets (4 and 5 symbolic bytes in arrays/objects did not finish within 80 minutes and are not claimed); every byte ranges over all 256 values",
  "names": "parameter name 'p'; object field-name sets {a,b}, {a,x=y}, {a,'c,d'} (thorough also {a,'e;f'}, {a,g.h})",
  "cookie_escape": "escape/unescape pair on every string of length 0..5 (quick) / 0..8 (thorough)"},
 "assumptions": ["generated code's driving pattern (EncodeValue/EncodeArray/EncodeField, Result, url.PathUnescape, HasParam, DecodeParam) is reproduced by the harness", "log.Printf in net/http cookie sanitising is a no-op", "formatting of error messages is opaque"],
 "out_of_claim": "maps (additionalProperties) as parameters, longer values, other parameter names, allowReserved, the transport (net/http header canonicalisation/trimming on a real connection), content-typed (JSON) parameters"
}
with open(os.path.join(os.path.dirname(__file__), "check.json"), "w") as f:
    json.dump(spec, f, indent=0)
print(len(quick), len(thorough))
