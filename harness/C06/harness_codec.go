package parser

// C06 harness: every (location, style, explode, shape) combination that the
// real admission table (validateParamStyle) admits is driven through the real
// uri encoders/decoders exactly as generated code drives them, with symbolic
// values, against a reference written from the OpenAPI 3.0.3 style table.

import (
	_ "unsafe" // go:linkname
	"net/http"
	"net/url"

	"github.com/ogen-go/ogen/location"

	zz "github.com/ogen-go/ogen/internal/zzverif"
	"github.com/ogen-go/ogen/jsonschema"
	"github.com/ogen-go/ogen/openapi"
	"github.com/ogen-go/ogen/uri"
)

var ZZEntries = map[string]func([]int){
	"HCodec": func(a []int) { HCodec(a[0], a[1], a[2], a[3], a[4], a[5], a[6], a[7]) },
}

const paramName = "p"

var (
	locs        = []openapi.ParameterLocation{openapi.LocationPath, openapi.LocationQuery, openapi.LocationHeader, openapi.LocationCookie}
	pathStyles  = []string{"simple", "label", "matrix"}
	queryStyles = []string{"form", "spaceDelimited", "pipeDelimited", "deepObject"}
	shapeTypes  = []jsonschema.SchemaType{jsonschema.String, jsonschema.Array, jsonschema.Object}
	nameSets    = [][2]string{{"a", "b"}, {"a", "x=y"}, {"a", "c,d"}, {"a", "e;f"}, {"a", "g.h"}}
)

func styleName(loc, style int) string {
	switch loc {
	case 0:
		return pathStyles[style]
	case 1:
		return queryStyles[style]
	case 2:
		return "simple"
	}
	return "form"
}

type shapeVal struct {
	val    string
	items  []string
	fields []uri.Field
}

func encodeInto(e uri.Encoder, shape int, v shapeVal) error {
	switch shape {
	case 0:
		return e.EncodeValue(v.val)
	case 1:
		return e.EncodeArray(func(e uri.Encoder) error {
			for _, it := range v.items {
				if err := e.EncodeValue(it); err != nil {
					return err
				}
			}
			return nil
		})
	default:
		if len(v.fields) == 0 {
			// generated EncodeURI calls EncodeField for every declared property; an unset optional property's
			// callback encodes nothing
			for _, n := range nameSets[0] {
				if err := e.EncodeField(n, func(e uri.Encoder) error { return nil }); err != nil {
					return err
				}
			}
			return nil
		}
		for _, f := range v.fields {
			f := f
			if err := e.EncodeField(f.Name, func(e uri.Encoder) error { return e.EncodeValue(f.Value) }); err != nil {
				return err
			}
		}
		return nil
	}
}

func decodeFrom(d uri.Decoder, shape int) (shapeVal, error) {
	var out shapeVal
	switch shape {
	case 0:
		v, err := d.DecodeValue()
		out.val = v
		return out, err
	case 1:
		err := d.DecodeArray(func(d uri.Decoder) error {
			v, err := d.DecodeValue()
			if err != nil {
				return err
			}
			out.items = append(out.items, v)
			return nil
		})
		return out, err
	default:
		err := d.DecodeFields(func(name string, d uri.Decoder) error {
			v, err := d.DecodeValue()
			if err != nil {
				return err
			}
			out.fields = append(out.fields, uri.Field{Name: name, Value: v})
			return nil
		})
		return out, err
	}
}

func sameVal(shape int, a, b shapeVal) bool {
	switch shape {
	case 0:
		return a.val == b.val
	case 1:
		if len(a.items) != len(b.items) {
			return false
		}
		eq := true
		for i := range a.items {
			eq = zz.And(eq, a.items[i] == b.items[i])
		}
		return eq
	default:
		if len(a.fields) != len(b.fields) {
			return false
		}
		eq := true
		for i := range a.fields {
			eq = zz.And(eq, zz.And(a.fields[i].Name == b.fields[i].Name, a.fields[i].Value == b.fields[i].Value))
		}
		return eq
	}
}

func containsByte(s string, c byte) bool {
	r := false
	for i := 0; i < len(s); i++ {
		r = zz.Or(r, s[i] == c)
	}
	return r
}

func unreserved(c byte) bool {
	if 'a' <= c && c <= 'z' {
		return true
	}
	if 'A' <= c && c <= 'Z' {
		return true
	}
	if '0' <= c && c <= '9' {
		return true
	}
	return c == '-' || c == '.' || c == '_' || c == '~'
}

func allUnreserved(s string) bool {
	r := true
	for i := 0; i < len(s); i++ {
		r = zz.And(r, unreserved(s[i]))
	}
	return r
}

// delimiters of an entry per the OpenAPI style table: item/field separator
// and (objects) key/value separator; 0 = none.
func delimiters(loc, style int, explode bool, shape int) (fieldSep, kvSep byte) {
	switch loc {
	case 0:
		switch shape {
		case 1:
			fieldSep = ','
			if explode && style == 1 {
				fieldSep = '.'
			}
			if explode && style == 2 {
				fieldSep = ';'
			}
		case 2:
			fieldSep, kvSep = ',', ','
			if explode {
				kvSep = '='
				if style == 1 {
					fieldSep = '.'
				}
				if style == 2 {
					fieldSep = ';'
				}
			}
		}
	case 1:
		switch {
		case style == 0 && !explode && shape == 1:
			fieldSep = ','
		case style == 0 && !explode && shape == 2:
			fieldSep, kvSep = ',', ','
		case style == 2 && !explode:
			fieldSep = '|'
		}
	case 2:
		switch shape {
		case 1:
			fieldSep = ','
		case 2:
			fieldSep, kvSep = ',', ','
			if explode {
				kvSep = '='
			}
		}
	case 3:
		switch shape {
		case 1:
			fieldSep = ','
		case 2:
			fieldSep, kvSep = ',', ','
		}
	}
	return
}

// refText is the OpenAPI 3.0.3 serialization of v (before percent-encoding).
func join(parts []string, sep string) string {
	out := ""
	for i, p := range parts {
		if i > 0 {
			out += sep
		}
		out += p
	}
	return out
}

func objText(fields []uri.Field, kv, sep string) string {
	var parts []string
	for _, f := range fields {
		parts = append(parts, f.Name+kv+f.Value)
	}
	return join(parts, sep)
}

func refPathText(style int, explode bool, shape int, v shapeVal) string {
	switch style {
	case 0:
		switch shape {
		case 0:
			return v.val
		case 1:
			return join(v.items, ",")
		}
		if explode {
			return objText(v.fields, "=", ",")
		}
		return objText(v.fields, ",", ",")
	case 1:
		switch shape {
		case 0:
			return "." + v.val
		case 1:
			if explode {
				return "." + join(v.items, ".")
			}
			return "." + join(v.items, ",")
		}
		if explode {
			return "." + objText(v.fields, "=", ".")
		}
		return "." + objText(v.fields, ",", ",")
	default:
		switch shape {
		case 0:
			return ";" + paramName + "=" + v.val
		case 1:
			if explode {
				out := ""
				for _, it := range v.items {
					out += ";" + paramName + "=" + it
				}
				return out
			}
			return ";" + paramName + "=" + join(v.items, ",")
		}
		if explode {
			return ";" + objText(v.fields, "=", ";")
		}
		return ";" + paramName + "=" + objText(v.fields, ",", ",")
	}
}

func refFlatText(explode bool, shape int, v shapeVal, itemSep string) string {
	switch shape {
	case 0:
		return v.val
	case 1:
		return join(v.items, itemSep)
	}
	if explode {
		return objText(v.fields, "=", ",")
	}
	return objText(v.fields, ",", ",")
}

func hexv(c byte) (byte, bool) {
	switch {
	case '0' <= c && c <= '9':
		return c - '0', true
	case 'a' <= c && c <= 'f':
		return c - 'a' + 10, true
	case 'A' <= c && c <= 'F':
		return c - 'A' + 10, true
	}
	return 0, false
}

func pctDecode(s string) (string, bool) {
	var out []byte
	for i := 0; i < len(s); {
		if s[i] != '%' {
			out = append(out, s[i])
			i++
			continue
		}
		if i+2 >= len(s) {
			return "", false
		}
		h, ok1 := hexv(s[i+1])
		l, ok2 := hexv(s[i+2])
		if !ok1 || !ok2 {
			return "", false
		}
		out = append(out, h<<4|l)
		i += 3
	}
	return string(out), true
}

func admitted(loc, style int, explode bool, shape int) bool {
	param := &openapi.Parameter{
		Name:    paramName,
		In:      locs[loc],
		Style:   openapi.ParameterStyle(styleName(loc, style)),
		Explode: explode,
		Schema:  &jsonschema.Schema{Type: shapeTypes[shape]},
	}
	var p *parser
	if err := p.validateParamStyle(param, p.rootFileOrZero()); err != nil {
		return false
	}
	// generator filter: the REAL gen.isSupportedParamStyle (gen imports this package, so the harness reaches it
	// through go:linkname; under the engine the call is redirected to its SSA body - check.json "links")
	if err := zzGenSupported(param); err != nil {
		return false
	}
	return true
}

//go:linkname zzGenSupported github.com/ogen-go/ogen/gen.isSupportedParamStyle
func zzGenSupported(param *openapi.Parameter) error

func buildValue(shape, l1, l2, l3, nameset int) (shapeVal, bool) {
	var v shapeVal
	lens := []int{l1, l2, l3}
	switch shape {
	case 0:
		if l1 < 0 || l2 >= 0 || l3 >= 0 {
			return v, false
		}
		v.val = zz.String(l1)
	case 1:
		v.items = []string{}
		ended := false
		for _, l := range lens {
			if l < 0 {
				ended = true
				continue
			}
			if ended {
				return v, false
			}
			v.items = append(v.items, zz.String(l))
		}
	default:
		if l3 >= 0 || (l1 < 0 && l2 >= 0) {
			return v, false
		}
		if l1 < 0 {
			// an object none of whose (optional) fields is set: generated EncodeURI then calls EncodeObject with
			// an empty field list
			v.fields = []uri.Field{}
			return v, nameset == 0
		}
		names := nameSets[nameset]
		v.fields = append(v.fields, uri.Field{Name: names[0], Value: zz.String(l1)})
		if l2 >= 0 {
			v.fields = append(v.fields, uri.Field{Name: names[1], Value: zz.String(l2)})
		}
	}
	return v, true
}

func HCodec(loc, style, exp, shape, l1, l2, l3, nameset int) {
	explode := exp != 0
	if !admitted(loc, style, explode, shape) {
		return
	}
	if shape != 2 && nameset != 0 {
		return
	}
	v, ok := buildValue(shape, l1, l2, l3, nameset)
	if !ok {
		return
	}
	zz.Cover("admitted-entry-driven")
	fieldSep, kvSep := delimiters(loc, style, explode, shape)

	// classification of the value
	hasDelim := false
	nonEmpty := true
	plain := true
	switch shape {
	case 0:
		nonEmpty = len(v.val) > 0
		plain = allUnreserved(v.val)
	case 1:
		nonEmpty = len(v.items) > 0
		for _, it := range v.items {
			if len(it) == 0 {
				nonEmpty = false
			}
			if fieldSep != 0 {
				hasDelim = zz.Or(hasDelim, containsByte(it, fieldSep))
			}
			plain = zz.And(plain, allUnreserved(it))
		}
	default:
		nonEmpty = len(v.fields) > 0 // an object with no field set is, like the empty array, outside the core domain
		for _, f := range v.fields {
			if len(f.Value) == 0 {
				nonEmpty = false
			}
			if fieldSep != 0 {
				hasDelim = zz.Or(hasDelim, containsByte(f.Value, fieldSep))
			}
			if kvSep != 0 {
				hasDelim = zz.Or(hasDelim, containsByte(f.Name, kvSep))
			}
			plain = zz.And(plain, allUnreserved(f.Value))
		}
		if nameset != 0 {
			plain = false
		}
	}
	core := zz.And(nonEmpty, zz.Not(hasDelim))
	if shape == 2 && nameset != 0 {
		core = false
	}

	var (
		encErr, decErr error
		got            shapeVal
		wireOK         = true
		wirePlainOK    = true
	)
	switch loc {
	case 0:
		e := uri.NewPathEncoder(uri.PathEncoderConfig{Param: paramName, Style: uri.PathStyle(pathStyles[style]), Explode: explode})
		encErr = encodeInto(e, shape, v)
		var wire string
		if encErr == nil {
			wire, encErr = e.Result()
		}
		if encErr == nil {
			ref := refPathText(style, explode, shape, v)
			dec, ok := pctDecode(wire)
			if shape != 1 || len(v.items) > 0 { // the style table does not define the text of an empty array
				wireOK = zz.And(ok, dec == ref)
				wirePlainOK = zz.Implies(plain, wire == ref)
			}
			// server side: the router hands the raw segment over, generated code unescapes it
			unescaped, err := url.PathUnescape(wire)
			if err != nil {
				decErr = err
			} else if len(unescaped) == 0 {
				decErr = http.ErrNoLocation // generated code: empty path parameter is "required" error
			} else {
				d := uri.NewPathDecoder(uri.PathDecoderConfig{Param: paramName, Value: unescaped, Style: uri.PathStyle(pathStyles[style]), Explode: explode})
				got, decErr = decodeFrom(d, shape)
			}
		}
	case 1:
		q := uri.NewQueryEncoder()
		encErr = q.EncodeParam(uri.QueryParameterEncodingConfig{Name: paramName, Style: uri.QueryStyle(queryStyles[style]), Explode: explode},
			func(e uri.Encoder) error { return encodeInto(e, shape, v) })
		if encErr == nil {
			wire := q.Values().Encode()
			parsed, err := url.ParseQuery(wire)
			if err != nil {
				zz.Fail("query text produced by the encoder does not parse")
				return
			}
			// reference key/value pairs
			ref := url.Values{}
			switch {
			case shape == 0:
				ref[paramName] = []string{v.val}
			case shape == 1 && explode:
				if len(v.items) > 0 {
					ref[paramName] = v.items
				}
			case shape == 1 && style == 2:
				ref[paramName] = []string{join(v.items, "|")}
			case shape == 1:
				ref[paramName] = []string{join(v.items, ",")}
			case shape == 2 && style == 3:
				for _, f := range v.fields {
					ref[paramName+"["+f.Name+"]"] = []string{f.Value}
				}
			case shape == 2 && explode:
				for _, f := range v.fields {
					ref[f.Name] = []string{f.Value}
				}
			default:
				ref[paramName] = []string{objText(v.fields, ",", ",")}
			}
			wireOK = len(parsed) == len(ref)
			for k, want := range ref {
				have := parsed[k]
				if len(have) != len(want) {
					wireOK = false
					continue
				}
				for i := range want {
					wireOK = zz.And(wireOK, have[i] == want[i])
				}
			}
			cfg := uri.QueryParameterDecodingConfig{Name: paramName, Style: uri.QueryStyle(queryStyles[style]), Explode: explode}
			if shape == 2 {
				for _, f := range v.fields {
					cfg.Fields = append(cfg.Fields, uri.QueryParameterObjectField{Name: f.Name, Required: true})
				}
			}
			d := uri.NewQueryDecoder(parsed)
			if err := d.HasParam(cfg); err != nil {
				decErr = err
			} else {
				decErr = d.DecodeParam(cfg, func(d uri.Decoder) error {
					var err error
					got, err = decodeFrom(d, shape)
					return err
				})
			}
		}
	case 2:
		h := http.Header{}
		encErr = uri.NewHeaderEncoder(h).EncodeParam(uri.HeaderParameterEncodingConfig{Name: paramName, Explode: explode},
			func(e uri.Encoder) error { return encodeInto(e, shape, v) })
		if encErr == nil {
			ref := refFlatText(explode, shape, v, ",")
			wireOK = h.Get(paramName) == ref
			cfg := uri.HeaderParameterDecodingConfig{Name: paramName, Explode: explode}
			d := uri.NewHeaderDecoder(h)
			if err := d.HasParam(cfg); err != nil {
				decErr = err
			} else {
				decErr = d.DecodeParam(cfg, func(d uri.Decoder) error {
					var err error
					got, err = decodeFrom(d, shape)
					return err
				})
			}
		}
	default:
		req := &http.Request{Header: http.Header{}}
		encErr = uri.NewCookieEncoder(req).EncodeParam(uri.CookieParameterEncodingConfig{Name: paramName, Explode: explode},
			func(e uri.Encoder) error { return encodeInto(e, shape, v) })
		if encErr == nil {
			ref := refFlatText(false, shape, v, ",")
			wire := req.Header.Get("Cookie")
			zz.Observe("cookie-wire", wire)
			zz.Observe("cookie-ref", ref)
			if len(wire) < 2 || wire[:2] != paramName+"=" {
				wireOK = false
			} else {
				dec, ok := pctDecode(wire[2:])
				wireOK = zz.And(ok, dec == ref)
				if shape == 0 { // for arrays/objects the ',' delimiter itself is percent-encoded (not a cookie-octet): compared after decoding only
					wirePlainOK = zz.Implies(plain, wire[2:] == ref)
				}
			}
			cfg := uri.CookieParameterDecodingConfig{Name: paramName, Explode: explode}
			d := uri.NewCookieDecoder(req)
			if err := d.HasParam(cfg); err != nil {
				decErr = err
			} else {
				decErr = d.DecodeParam(cfg, func(d uri.Decoder) error {
					var err error
					got, err = decodeFrom(d, shape)
					return err
				})
			}
		}
	}

	// known finding: an empty array is sent as the empty text, which these decoders read as one empty item
	zz.Known("C06/empty-array-decodes-as-single-empty-item", shape == 1 && len(v.items) == 0 && (loc == 2 || loc == 3 || (loc == 1 && style == 2 && !explode)))
	// known finding F5: query form explode=false array [""] is sent as "p=" which means the empty array
	zz.Known("C06/query-form-noexplode-single-empty-item", loc == 1 && style == 0 && !explode && shape == 1 && len(v.items) == 1 && len(v.items[0]) == 0)

	if encErr != nil {
		zz.Cover("encoder-refused")
		zz.Assert(zz.Not(core), "(c) core-domain values are always encoded")
		return
	}
	zz.Assert(zz.Not(hasDelim), "(d) a value containing the active delimiter is refused by the encoder")
	zz.Assert(wireOK, "(e) wire text is the OpenAPI style-table serialization (after percent-decoding)")
	zz.Assert(wirePlainOK, "(e) wire text over unreserved characters equals the reference exactly")
	if decErr != nil {
		zz.Cover("decoder-refused")
		zz.Assert(zz.Not(core), "(c) core-domain values are always decoded")
		return
	}
	zz.Cover("round-trip-completed")
	zz.Assert(sameVal(shape, v, got), "(b) decoding never yields a value different from the encoded one")
}

func (p *parser) rootFileOrZero() (f location.File) { return f }
