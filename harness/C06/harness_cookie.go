package uri

// C06 (cookie escaping): escapeCookie/unescapeCookie are an exact inverse pair
// and unescapeCookie is total, for every string of the case's length.

import zz "github.com/ogen-go/ogen/internal/zzverif"

var ZZEntries = map[string]func([]int){
	"HCookieEscape":   func(a []int) { HCookieEscape(a[0]) },
	"HCookieUnescape": func(a []int) { HCookieUnescape(a[0]) },
}

// RFC 6265 cookie-octet: %x21 / %x23-2B / %x2D-3A / %x3C-5B / %x5D-7E
func cookieOctet(c byte) bool {
	if c == 0x21 {
		return true
	}
	if 0x23 <= c && c <= 0x2B {
		return true
	}
	if 0x2D <= c && c <= 0x3A {
		return true
	}
	if 0x3C <= c && c <= 0x5B {
		return true
	}
	return 0x5D <= c && c <= 0x7E
}

func HCookieEscape(n int) {
	s := zz.String(n)
	e := escapeCookie(s)
	ok := true
	for i := 0; i < len(e); i++ {
		ok = zz.And(ok, cookieOctet(e[i]))
	}
	zz.Assert(ok, "escaped cookie value consists of RFC 6265 cookie-octets only")
	if len(e) != len(s) {
		zz.Cover("something-escaped")
	}
	back, good := unescapeCookie(e)
	zz.Assert(good, "escaped text is accepted by unescapeCookie")
	zz.Assert(back == s, "unescapeCookie(escapeCookie(s)) == s")
}

func HCookieUnescape(n int) {
	s := zz.String(n)
	out, ok := unescapeCookie(s) // totality: a panic is a violation
	if !ok {
		zz.Cover("invalid-escape-rejected")
		zz.Assert(out == "", "rejected input yields the empty string")
		return
	}
	zz.Assert(len(out) <= len(s), "unescaping never grows the text")
}
