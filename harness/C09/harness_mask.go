package ir

// C09/C03 kernel: JSONFields.RequiredMask (the mask the generated decoders
// compare the "seen" bitset with).

import (
	zz "github.com/ogen-go/ogen/internal/zzverif"
	"github.com/ogen-go/ogen/jsonschema"
)

var ZZEntries = map[string]func([]int){
	"HRequiredMask": func(a []int) { HRequiredMask(a[0], a[1]) },
}

// mode 0: every field's requiredness symbolic; mode 1: only the byte-boundary positions
func HRequiredMask(n, mode int) {
	req := make([]bool, n)
	var fs JSONFields
	for i := range req {
		if mode == 0 || i == 0 || i%8 == 7 || i%8 == 0 || i == n-1 {
			req[i] = zz.Bool()
		} else {
			req[i] = i%3 == 0
		}
		f := &Field{Name: "F"}
		switch i % 3 {
		case 0:
			f.Spec = &jsonschema.Property{Name: "f", Required: req[i]}
		case 1:
			if req[i] { // fork: a field without Spec is never required
				f.Spec = &jsonschema.Property{Name: "f", Required: true}
			}
		default:
			f.Spec = &jsonschema.Property{Name: "f", Required: req[i]}
		}
		fs = append(fs, f)
	}
	m := fs.RequiredMask()
	want := (n + 7) / 8
	if want == 0 {
		want = 1
	}
	zz.Assert(len(m) == want, "RequiredMask has ceil(n/8) bytes (at least one)")
	ok := true
	for i := 0; i < len(m)*8; i++ {
		b := m[i/8]&(1<<uint(i%8)) != 0
		if i < n {
			ok = zz.And(ok, b == req[i])
		} else {
			ok = zz.And(ok, !b)
		}
	}
	zz.Assert(ok, "RequiredMask bit i is set exactly when field i is required")
}
