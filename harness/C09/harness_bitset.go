package bitset

// C09/C03 kernel: the byte-slice bitset that carries "required member seen"
// and "security scheme satisfied" facts. One step from an arbitrary pre-state.

import zz "github.com/ogen-go/ogen/internal/zzverif"

var ZZEntries = map[string]func([]int){
	"HSet":   func(a []int) { HSet(a[0], a[1]) },
	"HBuild": func(a []int) { HBuild(a[0], a[1]) },
}

func bit(b []uint8, i int) bool {
	if i/8 >= len(b) {
		return false
	}
	return b[i/8]&(1<<uint(i%8)) != 0
}

func HSet(n, i int) {
	pre := zz.Bytes(n)
	old := append([]byte(nil), pre...)
	r := Bitset(pre)
	v := zz.Bool()
	r.Set(i, v)
	want := n
	if i/8+1 > want {
		want = i/8 + 1
	}
	zz.Assert(len(r) == want, "Set grows the set exactly up to the byte holding the bit")
	same := true
	for k := 0; k < len(r)*8; k++ {
		if k == i {
			continue
		}
		same = zz.And(same, bit(r, k) == bit(old, k))
	}
	zz.Assert(same, "Set leaves every other bit unchanged")
	zz.Assert(bit(r, i) == zz.Or(bit(old, i), v), "Set makes bit i equal to old OR v")
}

// mode 0: every predicate symbolic; mode 1: only the byte-boundary positions
func HBuild(n, mode int) {
	s := make([]bool, n)
	for i := range s {
		if mode == 0 || i == 0 || i%8 == 7 || i%8 == 0 || i == n-1 {
			s[i] = zz.Bool()
		} else {
			s[i] = i%3 == 0
		}
	}
	r := Build(s, func(_ int, b bool) bool { return b })
	want := (n + 7) / 8
	if want == 0 {
		want = 1
	}
	zz.Assert(len(r) == want, "Build returns ceil(n/8) bytes (at least one)")
	ok := true
	for i := 0; i < len(r)*8; i++ {
		if i < n {
			ok = zz.And(ok, bit(r, i) == s[i])
		} else {
			ok = zz.And(ok, !bit(r, i))
		}
	}
	zz.Assert(ok, "Build sets bit i exactly when the predicate holds for element i")
}
