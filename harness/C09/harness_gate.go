package PKGNAME

// C09 harness (copied into every generated package): the generated security
// gate of each operation (handle<Op>Request) with a SecurityHandler whose verdict per
// scheme and the presence of each credential are symbolic.

import (
	"context"
	"errors"
	"net/http"
	"net/url"

	zz "github.com/ogen-go/ogen/internal/zzverif"
	"github.com/ogen-go/ogen/middleware"
	"github.com/ogen-go/ogen/ogenerrors"
)

type zzOp struct {
	Path string
	Name string
	Alts [][]int
	// Mention: further schemes the operation's requirement names in the document - in alternatives that are left
	// out because they also need an unimplemented scheme type; the server may consult them
	Mention []int
}

type zzSec struct {
	verdict []byte // per scheme: 0 accept, 1 skip, other: hard error
	calls   []int
	keys    []string
}

var errZZDenied = errors.New("denied")

func (z *zzSec) handle(ctx context.Context, i int, key string) (context.Context, error) {
	z.calls[i]++
	z.keys[i] = key
	switch z.verdict[i] {
	case 0:
		return ctx, nil
	case 1:
		return ctx, ogenerrors.ErrSkipServerSecurity
	default:
		return ctx, errZZDenied
	}
}

type zzRec struct {
	header http.Header
	status int
	writes int
}

func (r *zzRec) Header() http.Header { return r.header }
func (r *zzRec) Write(b []byte) (int, error) {
	if r.status == 0 {
		r.status = 200
	}
	return len(b), nil
}
func (r *zzRec) WriteHeader(s int) {
	r.writes++
	if r.status == 0 {
		r.status = s
	}
}

// HGate: mode 0: every scheme the operation mentions has symbolic presence and verdict; mode 1 / 2 (for
// operations with many schemes): only the schemes at positions 0,1,6..9 and the last of the operation's
// scheme list (= bit positions of its requirement masks) are symbolic, the others are absent (1) or present
// and accepted (2).
func HGate(opIdx, mode int) {
	op := zzOps[opIdx]
	n := zzNumSchemes
	sec := &zzSec{verdict: make([]byte, n), calls: make([]int, n), keys: make([]string, n)}
	present := make([]bool, n)
	used := make([]bool, n)
	for _, alt := range op.Alts {
		for _, s := range alt {
			used[s] = true
		}
	}
	for _, s := range op.Mention {
		used[s] = true
	}
	// position of each scheme among the operation's schemes (order of first mention)
	pos := make([]int, n)
	np := 0
	for i := range pos {
		pos[i] = -1
	}
	for _, alt := range op.Alts {
		for _, s := range alt {
			if pos[s] < 0 {
				pos[s] = np
				np++
			}
		}
	}
	h := http.Header{}
	for i := 0; i < n; i++ {
		if !used[i] && i > 2 {
			continue // unused schemes beyond the first three stay absent (keeps the 20-scheme cases small)
		}
		if mode != 0 && used[i] && !(pos[i] <= 1 || (pos[i] >= 6 && pos[i] <= 9) || pos[i] == np-1) {
			present[i] = mode == 2 // fixed: absent (mode 1) or present and accepted (mode 2)
			sec.verdict[i] = 0
			if present[i] {
				h["X-S"+itoa(i)] = []string{"k"}
			}
			continue
		}
		present[i] = zz.Bool()
		v := zz.Byte()
		zz.Assume(v <= 2)
		sec.verdict[i] = v
		if present[i] {
			h["X-S"+itoa(i)] = []string{"k"}
		}
	}
	ran := 0
	mw := func(req middleware.Request, next middleware.Next) (middleware.Response, error) {
		ran++
		zz.Assert(req.OperationName == op.Name, "the operation that runs is the one the request addresses")
		return next(req)
	}
	srv, err := NewServer(UnimplementedHandler{}, sec, WithMiddleware(mw))
	if err != nil {
		panic(err)
	}
	rec := &zzRec{header: http.Header{}}
	srv.ServeHTTP(rec, &http.Request{Method: "GET", URL: &url.URL{Path: op.Path}, Header: h})

	// reference
	satisfied := false
	for _, alt := range op.Alts {
		all := true
		for _, s := range alt {
			all = zz.And(all, zz.And(present[s], sec.verdict[s] == 0))
		}
		satisfied = zz.Or(satisfied, all)
	}
	if op.Alts == nil || len(op.Alts) == 0 {
		satisfied = true // no security requirement at all
	}
	hard := false
	for i := 0; i < n; i++ {
		if used[i] {
			hard = zz.Or(hard, zz.And(present[i], sec.verdict[i] >= 2))
		}
	}
	for i := 0; i < n; i++ {
		if !used[i] {
			zz.Assert(sec.calls[i] == 0, "schemes the operation does not mention are never consulted")
		}
	}
	zz.Assert(rec.writes <= 1, "exactly one response is written")
	if ran > 0 {
		zz.Cover("handler-ran")
		zz.Assert(ran == 1, "the handler runs once")
		zz.Assert(satisfied, "the handler runs only if some alternative has every scheme present and accepted")
	} else {
		zz.Cover("handler-refused")
		zz.Assert(rec.status == 401, "a request that does not satisfy the requirements is answered 401")
		zz.Known("C09/hard-error-preempts-alternatives", zz.And(satisfied, hard))
		zz.Assert(zz.Not(satisfied), "the handler runs whenever some alternative has every scheme present and accepted")
		zz.Known("C09/hard-error-preempts-alternatives", false)
	}
}

func itoa(i int) string {
	if i >= 10 {
		return string([]byte{byte('0' + i/10), byte('0' + i%10)})
	}
	return string([]byte{byte('0' + i)})
}
