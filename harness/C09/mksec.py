#!/usr/bin/env python3
"""Security-gate driver for C09: specs whose operations carry requirement structures (alternatives of
conjunctions of apiKey-in-header schemes), the per-package Go data/adapter the harness needs, and cases."""
import sys, json, itertools, random

tier = sys.argv[1] if len(sys.argv) > 1 else "quick"
seed = int(sys.argv[2]) if len(sys.argv) > 2 else 0
rng = random.Random(77 + seed)

def structures(n):
    subsets = [tuple(c) for k in range(0, n + 1) for c in itertools.combinations(range(n), k)]
    out = []
    for k in range(1, len(subsets) + 1):
        for alts in itertools.combinations(subsets, k):
            out.append([list(a) for a in alts])
    return out

def spec(nschemes, ops, global_sec=None, unsupported=()):
    L = ["openapi: 3.0.3", "info: {title: t, version: '1'}", "components:", "  securitySchemes:"]
    for i in range(nschemes):
        if i in unsupported:
            L.append("    s%d: {type: openIdConnect, openIdConnectUrl: 'https://id.example/.well-known/openid-configuration'}" % i)
            continue
        L.append("    s%d: {type: apiKey, in: header, name: X-S%d}" % (i, i))
    if global_sec is not None:
        L.append("security:")
        for alt in global_sec:
            L.append("  - {%s}" % ", ".join("s%d: []" % s for s in alt))
    L.append("paths:")
    for i, op in enumerate(ops):
        L.append("  /op%d:" % i)
        L.append("    get:")
        L.append("      operationId: op%d" % i)
        if op["alts"] is not None and not op.get("inherit"):
            if len(op["alts"]) == 0:
                L.append("      security: []")
            else:
                L.append("      security:")
                for alt in op["alts"]:
                    L.append("        - {%s}" % ", ".join("s%d: []" % s for s in alt))
        L.append("      responses: {'200': {description: ok}}")
    return "\n".join(L) + "\n"

def data_go(nschemes, ops):
    L = ["package PKGNAME", "", "var zzNumSchemes = %d" % nschemes, "", "var zzOps = []zzOp{"]
    for i, op in enumerate(ops):
        alts = op["effective"]
        L.append("\t{Path: \"/op%d\", Name: \"Op%d\", Alts: [][]int{%s}, Mention: []int{%s}}," % (i, i, ", ".join("{%s}" % ", ".join(str(s) for s in a) for a in alts), ", ".join(str(s) for s in op.get("mention", []))))
    L.append("}")
    return "\n".join(L) + "\n"

def adapter_go(nschemes, ops):
    used = set()
    for op in ops:
        for alt in (op["effective"] or []):
            used.update(alt)
    L = ["package PKGNAME", "", "import \"context\"", ""]
    for i in sorted(used):
        L.append("func (z *zzSec) HandleS%d(ctx context.Context, op OperationName, t S%d) (context.Context, error) { return z.handle(ctx, %d, t.APIKey) }" % (i, i, i))
    return "\n".join(L) + "\n"

packages, cases = [], []
def add_pkg(name, nschemes, ops, global_sec=None, modes=(0,), unsupported=()):
    for op in ops:
        if op.get("inherit"):
            op["effective"] = global_sec
        else:
            op["effective"] = op["alts"]
        if unsupported and op["effective"] is not None:
            # an alternative that needs a scheme ogen does not implement cannot be satisfied through ogen: with
            # 'ignore not implemented' it is left out and the remaining alternatives are the requirement
            op["mention"] = sorted({s for a in op["effective"] for s in a if s not in unsupported})
            op["effective"] = [a for a in op["effective"] if not set(a) & set(unsupported)]
    idx = len(packages)
    pkg = {"name": name, "spec": spec(nschemes, ops, global_sec, unsupported),
           "extra_go": {"data.go": data_go(nschemes, ops), "adapter.go": adapter_go(nschemes, ops)}}
    if unsupported:
        pkg["ignore_not_implemented"] = ["all"]
    packages.append(pkg)
    for i in range(len(ops)):
        for m in modes:
            cases.append([idx, i, m])

# all structures over 2 schemes (15)
add_pkg("g2", 2, [{"alts": s} for s in structures(2)])
# 3 schemes: seeded subset (quick) or all 255
s3 = structures(3)
if tier == "quick":
    pick = rng.sample(s3, 12)
else:
    pick = s3
add_pkg("g3", 3, [{"alts": s} for s in pick])
# global security with overrides and explicit empty
add_pkg("gg", 3, [{"alts": None, "inherit": True}, {"alts": [[2]]}, {"alts": []}, {"alts": [[0, 1], []]}], global_sec=[[0], [1, 2]])
# 20 schemes, alternatives straddling the bytes of the mask
add_pkg("g20", 20, [
    {"alts": [[0, 7, 8], [15, 16], [19]]},
    {"alts": [[8], [16, 19]]},
    {"alts": [[7, 8, 15, 16]]},
    {"alts": [[19], [0]]},
    {"alts": [[1, 9, 17], [7], []]},
])
# operations that mention 9..12 distinct schemes: their requirement masks have two bytes (the bit index is the
# position of the scheme among the OPERATION's schemes). Mode 1/2: only the schemes at mask positions 0,1 and 6..9
# (and the last) are symbolic; the others are absent (1) or present and accepted (2).
add_pkg("g12", 12, [
    {"alts": [[i] for i in range(9)]},                       # nine single-scheme alternatives
    {"alts": [list(range(10))]},                             # one ten-scheme conjunction
    {"alts": [list(range(9)), [0, 8]]},                      # bits 0 and 8 shared by two alternatives
    {"alts": [[0, 1, 2, 3, 4, 5, 6, 7], [8, 9], [10, 11]]},  # one alternative per mask byte
    {"alts": [[11, 3], [4, 5, 6], [7, 8, 9, 10], [0, 1, 2]]},
], modes=(1, 2))
# alternatives that need an unimplemented scheme type (openIdConnect), generated with 'ignore not implemented':
# the remaining alternatives must still be enforced (supported schemes named before and after the unsupported one,
# reused by later alternatives)
add_pkg("gu", 5, [
    {"alts": [[0, 3], [0]]},
    {"alts": [[1, 3], [0], [1]]},
    {"alts": [[3, 4], [4, 2], [2]]},
    {"alts": [[0], [0, 3], [1]]},
    {"alts": [[0, 1, 3], [1, 2]]},
], unsupported=(3,))
print(json.dumps({"packages": packages, "cases": {tier: [{"entry": "HGate", "args": cases}]},
                  "bounds": {"requirement_structures": "all 15 structures over 2 schemes; %s over 3 schemes; global security with per-operation override / explicit empty / anonymous alternative; 20 declared schemes with operations using up to six of them; five operations with an alternative that needs an unimplemented scheme type (generated with ignore_not_implemented: the other alternatives stay enforced); five operations that mention 9..12 distinct schemes so that their masks have two bytes (presence/verdict symbolic at mask positions 0,1,6..9 and the last; the others fixed absent or fixed accepted)" % ("12 seeded of the 255" if tier == "quick" else "all 255"),
                             "per_request": "for every scheme of the operation: credential present or absent (symbolic) and the SecurityHandler's verdict accept / ErrSkipServerSecurity / other error (symbolic); schemes not used by the operation also carry symbolic credentials"}}))
