package PKGNAME

// C09 (credential transport): what the generated Client.security<X> attaches
// is what the generated Server.security<X> extracts, for symbolic credentials.

import (
	"context"
	"net/http"
	"net/url"

	zz "github.com/ogen-go/ogen/internal/zzverif"
)

type zzSource struct {
	token, user, pass string
}

func (s *zzSource) Kh(ctx context.Context, op OperationName) (Kh, error) { return Kh{APIKey: s.token}, nil }
func (s *zzSource) Ku(ctx context.Context, op OperationName) (Ku, error) { return Ku{APIKey: s.token}, nil }
func (s *zzSource) Kl(ctx context.Context, op OperationName) (Kl, error) { return Kl{APIKey: s.token}, nil }
func (s *zzSource) Kq(ctx context.Context, op OperationName) (Kq, error) { return Kq{APIKey: s.token}, nil }
func (s *zzSource) Kc(ctx context.Context, op OperationName) (Kc, error) { return Kc{APIKey: s.token}, nil }
func (s *zzSource) Be(ctx context.Context, op OperationName) (Be, error) { return Be{Token: s.token}, nil }
func (s *zzSource) Ba(ctx context.Context, op OperationName) (Ba, error) {
	return Ba{Username: s.user, Password: s.pass}, nil
}
func (s *zzSource) Oa(ctx context.Context, op OperationName) (Oa, error) { return Oa{Token: s.token}, nil }

type zzSink struct {
	got    string
	user   string
	pass   string
	scopes []string
	calls  int
}

func (k *zzSink) HandleKh(ctx context.Context, op OperationName, t Kh) (context.Context, error) {
	k.calls++
	k.got = t.APIKey
	return ctx, nil
}
func (k *zzSink) HandleKu(ctx context.Context, op OperationName, t Ku) (context.Context, error) {
	k.calls++
	k.got = t.APIKey
	return ctx, nil
}
func (k *zzSink) HandleKl(ctx context.Context, op OperationName, t Kl) (context.Context, error) {
	k.calls++
	k.got = t.APIKey
	return ctx, nil
}
func (k *zzSink) HandleKq(ctx context.Context, op OperationName, t Kq) (context.Context, error) {
	k.calls++
	k.got = t.APIKey
	return ctx, nil
}
func (k *zzSink) HandleKc(ctx context.Context, op OperationName, t Kc) (context.Context, error) {
	k.calls++
	k.got = t.APIKey
	return ctx, nil
}
func (k *zzSink) HandleBe(ctx context.Context, op OperationName, t Be) (context.Context, error) {
	k.calls++
	k.got = t.Token
	return ctx, nil
}
func (k *zzSink) HandleBa(ctx context.Context, op OperationName, t Ba) (context.Context, error) {
	k.calls++
	k.user, k.pass = t.Username, t.Password
	return ctx, nil
}
func (k *zzSink) HandleOa(ctx context.Context, op OperationName, t Oa) (context.Context, error) {
	k.calls++
	k.got = t.Token
	k.scopes = t.Scopes
	return ctx, nil
}

// token68 alphabet (RFC 7235): ALPHA / DIGIT / "-" / "." / "_" / "~" / "+" / "/" and trailing "="
func token68(c byte) bool {
	if 'a' <= c && c <= 'z' {
		return true
	}
	if 'A' <= c && c <= 'Z' {
		return true
	}
	if '0' <= c && c <= '9' {
		return true
	}
	return c == '-' || c == '.' || c == '_' || c == '~' || c == '+' || c == '/'
}

func symToken(n int) string {
	s := zz.String(n)
	for i := 0; i < len(s); i++ {
		zz.Assume(token68(s[i]))
	}
	return s
}

// kind 7/8: apiKey headers named X-API-Key / x-low-key; kind: 0 apiKey header, 1 apiKey query, 2 apiKey cookie, 3 bearer, 4 basic, 5 oauth2 (opA: r,w), 6 oauth2 (opB: r)
func HTransport(kind, n int) {
	src := &zzSource{}
	if kind == 4 {
		src.user, src.pass = zz.String(n), zz.String(n)
		for i := 0; i < n; i++ {
			zz.Assume(src.user[i] != ':') // RFC 7617: the user-id cannot contain a colon
		}
	} else {
		src.token = symToken(n)
	}
	sink := &zzSink{}
	u, _ := url.Parse("http://h")
	c, err := NewClient("http://h", src)
	if err != nil {
		panic(err)
	}
	s, err := NewServer(UnimplementedHandler{}, sink)
	if err != nil {
		panic(err)
	}
	req := &http.Request{Method: "GET", URL: &url.URL{Scheme: u.Scheme, Host: u.Host, Path: "/a"}, Header: http.Header{}}
	ctx := context.Background()
	op := OperationName(OpAOperation)
	var cerr, serr error
	var ok bool
	switch kind {
	case 0:
		cerr = c.securityKh(ctx, op, req)
		_, ok, serr = s.securityKh(ctx, op, req)
	case 1:
		cerr = c.securityKq(ctx, op, req)
		_, ok, serr = s.securityKq(ctx, op, req)
	case 2:
		cerr = c.securityKc(ctx, op, req)
		_, ok, serr = s.securityKc(ctx, op, req)
	case 3:
		cerr = c.securityBe(ctx, op, req)
		_, ok, serr = s.securityBe(ctx, op, req)
	case 4:
		cerr = c.securityBa(ctx, op, req)
		_, ok, serr = s.securityBa(ctx, op, req)
	case 5:
		cerr = c.securityOa(ctx, op, req)
		_, ok, serr = s.securityOa(ctx, op, req)
	case 6:
		op = OperationName(OpBOperation)
		cerr = c.securityOa(ctx, op, req)
		_, ok, serr = s.securityOa(ctx, op, req)
	case 7: // header name that is not in canonical MIME form
		cerr = c.securityKu(ctx, op, req)
		_, ok, serr = s.securityKu(ctx, op, req)
	default: // lower-case header name
		cerr = c.securityKl(ctx, op, req)
		_, ok, serr = s.securityKl(ctx, op, req)
	}
	zz.Assert(cerr == nil, "the client attaches the credential without error")
	zz.Assert(zz.And(serr == nil, ok), "the server finds the credential the client attached")
	zz.Assert(sink.calls == 1, "the security handler is consulted exactly once")
	if kind == 4 {
		zz.Assert(zz.And(sink.user == src.user, sink.pass == src.pass), "basic: the server extracts the user name and password the client attached")
	} else {
		zz.Assert(sink.got == src.token, "the server extracts exactly the token / API key the client attached")
	}
	if kind == 5 {
		zz.Assert(len(sink.scopes) == 2 && sink.scopes[0] == "r" && sink.scopes[1] == "w", "oauth2: the handler receives exactly the operation's scopes (opA)")
	}
	if kind == 6 {
		zz.Assert(len(sink.scopes) == 1 && sink.scopes[0] == "r", "oauth2: the handler receives exactly the operation's scopes (opB)")
	}
}
