package jsonpointer

// C07 kernel: one step of the reference-cycle mechanism (ResolveCtx.AddKey / Delete / Key) from an
// arbitrary pre-state satisfying the representation invariant.

import (
	"net/url"

	zz "github.com/ogen-go/ogen/internal/zzverif"
	"github.com/ogen-go/ogen/location"
)

var ZZEntries = map[string]func([]int){
	"HAddKey": func(a []int) { HAddKey(a[0], a[1]) },
	"HKey":    func(a []int) { HKey(a[0]) },
}

var zzLocs = []string{"", "file:///a.yml", "https://e.com/s.json"}

func symKey(plen int) RefKey {
	return RefKey{Loc: zzLocs[zz.IntRange(0, 2)], Ptr: "#" + zz.String(plen)}
}

// pre-state: nrefs references in progress (pairwise distinct), remaining depth L - nrefs
func preState(nrefs, plen, limit int) (*ResolveCtx, []RefKey) {
	root, _ := url.Parse("file:///root.yml")
	r := NewResolveCtx(root, limit)
	var keys []RefKey
	for i := 0; i < nrefs; i++ {
		k := symKey(plen)
		for _, o := range keys {
			zz.Assume(k != o)
		}
		if err := r.AddKey(k, location.File{}); err != nil {
			zz.Fail("building the pre-state failed")
		}
		keys = append(keys, k)
	}
	return r, keys
}

func HAddKey(nrefs, plen int) {
	const L = 3
	r, keys := preState(nrefs, plen, L)
	zz.Assert(len(r.refs) == nrefs && len(r.locstack) == nrefs && r.depthLimit+nrefs == L, "representation invariant holds in the pre-state")
	k := symKey(plen)
	inProgress := false
	for _, o := range keys {
		inProgress = zz.Or(inProgress, k == o)
	}
	err := r.AddKey(k, location.File{})
	if err != nil {
		zz.Cover("addkey-refused")
		zz.Assert(zz.Or(inProgress, nrefs >= L), "AddKey refuses only a reference already in progress or nesting beyond the depth limit")
		zz.Assert(len(r.refs) == nrefs && len(r.locstack) == nrefs && r.depthLimit+nrefs == L, "a refused AddKey leaves the state unchanged")
		return
	}
	zz.Cover("addkey-accepted")
	zz.Assert(zz.Not(inProgress), "a reference that is already being resolved is refused (cycle detection)")
	zz.Assert(nrefs < L, "nesting beyond the depth limit is refused")
	_, has := r.refs[k]
	zz.Assert(has, "an accepted reference is recorded as in progress")
	zz.Assert(len(r.refs) == nrefs+1 && len(r.locstack) == nrefs+1 && r.depthLimit+nrefs+1 == L, "AddKey keeps the representation invariant")
	r.Delete(k)
	_, has = r.refs[k]
	zz.Assert(!has, "Delete removes the reference from the in-progress set")
	zz.Assert(len(r.refs) == nrefs && len(r.locstack) == nrefs && r.depthLimit+nrefs == L, "Delete after AddKey restores the pre-state")
	for _, o := range keys {
		_, still := r.refs[o]
		zz.Assert(still, "other in-progress references survive AddKey/Delete of a different key")
	}
}

// HKey: at the root, a local reference "#..." is keyed by (root location, reference text)
func HKey(plen int) {
	root, _ := url.Parse("file:///root.yml")
	r := NewResolveCtx(root, 3)
	ref := "#" + zz.String(plen)
	k, err := r.Key(ref)
	zz.Assert(err == nil, "a local reference always has a key at the root")
	zz.Assert(zz.And(zz.EqString(k.Ptr, ref), k.Loc == root.String()), "at the root a local reference is keyed by (root location, reference text)")
}
