package parser

// C07, parser level: "referencing equals inlining" through the REAL parser.Parse. One API is written as a
// root document plus an external document "ext.json"; every reference site has a symbolic choice "keep the
// $ref" / "inline a copy of the target". The parsed API must be the same (up to Ref/location fields) for
// every choice. The two documents deliberately contain components of the same kind and name with
// different content, a reference into the other file followed by a root-relative reference, a relative
// reference inside the external file, and a target shared by several sites.
//
// Under the engine the two environment functions that need the YAML library (reflection) -
// (*parser).getResolver and resolvePointer - are replaced by the stubs below, which serve the same
// documents from the Go values; natively the real functions run on json.Marshal of those values, exactly
// as openapi/parser's own TestExternalReference does.

import (
	"context"
	"encoding/json"
	"sort"
	"strconv"
	"strings"

	"github.com/go-faster/errors"
	"github.com/go-faster/yaml"

	"github.com/ogen-go/ogen"
	zz "github.com/ogen-go/ogen/internal/zzverif"
	"github.com/ogen-go/ogen/jsonschema"
	"github.com/ogen-go/ogen/location"
	"github.com/ogen-go/ogen/openapi"
)

var ZZEntries = map[string]func([]int){
	"HInline": func(a []int) { HInline(a[0], a[1]) },
	"HCycle":  func(a []int) { HCycle(a[0]) },
	"HExpand": func(a []int) { HExpand(a[0]) },
}

// ---- the documents -------------------------------------------------------------------------------

func zzStr() *ogen.Schema { return &ogen.Schema{Type: "string"} }
func zzInt() *ogen.Schema { return &ogen.Schema{Type: "integer"} }

// external document
func zzExtParamQ() *ogen.Parameter {
	return &ogen.Parameter{Name: "eq", In: "header", Description: "ext Q", Schema: zzInt()}
}
func zzExtHeaderH() *ogen.Header { return &ogen.Header{Description: "ext H", Schema: zzStr()} }
func zzExtExampleE() *ogen.Example {
	return &ogen.Example{Summary: "ext E", Value: ogen.ExampleValue(`"ext"`)}
}
// zzExtResponseR: inRoot = the copy is placed in the root document, where the external file's relative
// reference has to be spelled with the file name to keep its meaning.
func zzExtResponseR(inlineH, inRoot bool) *ogen.Response {
	h := &ogen.Header{Ref: "#/components/headers/H"} // relative: the EXTERNAL file's H
	if inRoot {
		h = &ogen.Header{Ref: "ext.json#/components/headers/H"}
	}
	if inlineH {
		h = zzExtHeaderH()
	}
	return &ogen.Response{Description: "ext R", Headers: map[string]*ogen.Header{"X-H": h},
		Content: map[string]ogen.Media{"text/plain": {Schema: zzStr()}}}
}
func zzExtBodyB() *ogen.RequestBody {
	return &ogen.RequestBody{Description: "ext B", Content: map[string]ogen.Media{"text/plain": {Schema: zzStr()}}}
}

func zzExtSecK() *ogen.SecurityScheme {
	return &ogen.SecurityScheme{Type: "apiKey", Name: "xk", In: "query", Description: "ext K"}
}
func zzRootSecK() *ogen.SecurityScheme {
	return &ogen.SecurityScheme{Type: "apiKey", Name: "X-K", In: "header", Description: "root K"}
}

func zzExtDoc() *ogen.Spec {
	return &ogen.Spec{Components: &ogen.Components{
		SecuritySchemes: map[string]*ogen.SecurityScheme{"K": zzExtSecK()},
		Parameters:    map[string]*ogen.Parameter{zzExtQ: zzExtParamQ()},
		Headers:       map[string]*ogen.Header{"H": zzExtHeaderH()},
		Examples:      map[string]*ogen.Example{"E": zzExtExampleE()},
		Responses:     map[string]*ogen.Response{"R": zzExtResponseR(false, false)},
		RequestBodies: map[string]*ogen.RequestBody{"B": zzExtBodyB()},
	}}
}

// root document
func zzRootParamQ() *ogen.Parameter {
	return &ogen.Parameter{Name: "q", In: "query", Description: "root Q", Schema: zzStr()}
}
func zzRootHeaderH() *ogen.Header { return &ogen.Header{Description: "root H", Schema: zzInt()} }
func zzRootExampleE() *ogen.Example {
	return &ogen.Example{Summary: "root E", Value: ogen.ExampleValue(`"root"`)}
}
func zzRootResponseR(inlineH, inlineE bool) *ogen.Response {
	h := &ogen.Header{Ref: "#/components/headers/H"}
	if inlineH {
		h = zzRootHeaderH()
	}
	e := &ogen.Example{Ref: "#/components/examples/E"}
	if inlineE {
		e = zzRootExampleE()
	}
	return &ogen.Response{Description: "root R", Headers: map[string]*ogen.Header{"X-H": h},
		Content: map[string]ogen.Media{"application/json": {Schema: &ogen.Schema{Ref: "#/components/schemas/Node"}, Examples: map[string]*ogen.Example{"e": e}}}}
}
func zzRootBodyB() *ogen.RequestBody {
	return &ogen.RequestBody{Description: "root B", Required: true, Content: map[string]ogen.Media{"application/json": {Schema: &ogen.Schema{Ref: "#/components/schemas/Pair"}}}}
}

// names of the parameter component in the root and in the external document (symbolic letters in
// HInline: equal names - the region where two files hold a same-named component - and different names)
var zzRootQ, zzExtQ = "Q", "Q"

// zzRoot builds the root document; bit i of mask set = reference site i is replaced by a copy of its target.
func zzRoot(mask int) *ogen.Spec {
	bit := func(i int) bool { return mask&(1<<i) != 0 }
	pExt := &ogen.Parameter{Ref: "ext.json#/components/parameters/" + zzExtQ} // site 0: into the other file ...
	if bit(0) {
		pExt = zzExtParamQ()
	}
	pRoot := &ogen.Parameter{Ref: "#/components/parameters/" + zzRootQ} // site 1: ... then root-relative, same kind (and name)
	if bit(1) {
		pRoot = zzRootParamQ()
	}
	r200 := &ogen.Response{Ref: "ext.json#/components/responses/R"} // site 2 (its inner relative ref: site 3)
	if bit(2) {
		r200 = zzExtResponseR(bit(3), true)
	}
	r404 := &ogen.Response{Ref: "#/components/responses/R"} // site 4 (inner: header site 5, example site 6)
	if bit(4) {
		r404 = zzRootResponseR(bit(5), bit(6))
	}
	bPut := &ogen.RequestBody{Ref: "ext.json#/components/requestBodies/B"} // site 7
	if bit(7) {
		bPut = zzExtBodyB()
	}
	bPost := &ogen.RequestBody{Ref: "#/components/requestBodies/B"} // site 8: shared root target, second referrer below
	if bit(8) {
		bPost = zzRootBodyB()
	}
	rPost := &ogen.Response{Ref: "#/components/responses/R"} // site 9: second referrer of root R
	if bit(9) {
		rPost = zzRootResponseR(bit(5), bit(6))
	}
	secKR := &ogen.SecurityScheme{Ref: "#/components/securitySchemes/K"} // site 10: a scheme that is a reference to another scheme
	if bit(10) {
		secKR = zzRootSecK()
	}
	secKX := &ogen.SecurityScheme{Ref: "ext.json#/components/securitySchemes/K"} // site 11: ... into the other file (same name, other content)
	if bit(11) {
		secKX = zzExtSecK()
	}
	node := &ogen.Schema{Type: "object", Properties: ogen.Properties{
		{Name: "v", Schema: zzStr()},
		{Name: "next", Schema: &ogen.Schema{Ref: "#/components/schemas/Node"}}, // schema cycle: recursive type
	}}
	pair := &ogen.Schema{Type: "object", Properties: ogen.Properties{
		{Name: "a", Schema: &ogen.Schema{Ref: "#/components/schemas/Node"}},
		{Name: "b", Schema: &ogen.Schema{Ref: "#/components/schemas/Node"}},
	}}
	return &ogen.Spec{
		OpenAPI: "3.1.0",
		Info:    ogen.Info{Title: "t", Version: "1"},
		Paths: ogen.Paths{
			"/a": &ogen.PathItem{
				Get: &ogen.Operation{OperationID: "getA", Parameters: []*ogen.Parameter{pExt, pRoot},
					Security: ogen.SecurityRequirements{{"KR": {}}, {"KX": {}, "K": {}}},
					Responses: ogen.Responses{"200": r200, "404": r404, "default": &ogen.Response{Description: "d"}}},
				Put:  &ogen.Operation{OperationID: "putA", RequestBody: bPut, Responses: ogen.Responses{"204": &ogen.Response{Description: "done"}}},
				Post: &ogen.Operation{OperationID: "postA", RequestBody: bPost, Responses: ogen.Responses{"200": rPost}},
			},
		},
		Components: &ogen.Components{
			Schemas:       map[string]*ogen.Schema{"Node": node, "Pair": pair},
			SecuritySchemes: map[string]*ogen.SecurityScheme{"K": zzRootSecK(), "KR": secKR, "KX": secKX},
			Parameters:    map[string]*ogen.Parameter{zzRootQ: zzRootParamQ()},
			Headers:       map[string]*ogen.Header{"H": zzRootHeaderH()},
			Examples:      map[string]*ogen.Example{"E": zzRootExampleE()},
			Responses:     map[string]*ogen.Response{"R": zzRootResponseR(false, false)},
			RequestBodies: map[string]*ogen.RequestBody{"B": zzRootBodyB()},
		},
	}
}

// ---- environment: external documents ---------------------------------------------------------------

type zzExternal map[string]*ogen.Spec

func (e zzExternal) Get(_ context.Context, loc string) ([]byte, error) {
	d, ok := e[zzDocName(loc)]
	if !ok {
		return nil, errors.Errorf("unexpected location %q", loc)
	}
	return json.Marshal(d) // native only: under the engine getResolver is stubbed and never calls Get
}

// zzDocName: the document name is the last path segment of the location URL
func zzDocName(loc string) string { return loc[strings.LastIndex(loc, "/")+1:] }

var (
	zzDocs  zzExternal
	zzNodes map[*yaml.Node]*ogen.Spec
)

// zzGetResolver replaces (*parser).getResolver under the engine: same caching, the document is
// identified by a fresh node instead of being decoded from bytes.
func zzGetResolver(p *parser, loc string) (resolver, error) {
	if r, ok := p.schemas[loc]; ok {
		return r, nil
	}
	d, ok := zzDocs[zzDocName(loc)]
	if !ok {
		return resolver{}, errors.Errorf("get %q: unexpected location", loc)
	}
	n := &yaml.Node{Kind: yaml.DocumentNode}
	zzNodes[n] = d
	r := resolver{node: n, file: location.NewFile(loc, loc, nil)}
	p.schemas[loc] = r
	return r, nil
}

// zzResolvePointer replaces resolvePointer (jsonpointer.Resolve + yaml Decode) under the engine for the
// pointers "#/components/<kind>/<name>" of a registered document.
func zzResolvePointer(root *yaml.Node, ptr string, to any) error {
	d, ok := zzNodes[root]
	if !ok || d.Components == nil {
		return errors.Errorf("can't find value for %q", ptr)
	}
	parts := strings.Split(strings.TrimPrefix(strings.TrimPrefix(ptr, "#"), "/"), "/")
	if len(parts) != 3 || parts[0] != "components" {
		return errors.Errorf("can't find value for %q", ptr)
	}
	kind, name := parts[1], parts[2]
	found := false
	switch t := to.(type) {
	case **ogen.Parameter:
		if kind == "parameters" {
			*t, found = d.Components.Parameters[name]
		} else if kind == "headers" {
			*t, found = d.Components.Headers[name]
		}
	case **ogen.Response:
		if kind == "responses" {
			*t, found = d.Components.Responses[name]
		}
	case **ogen.RequestBody:
		if kind == "requestBodies" {
			*t, found = d.Components.RequestBodies[name]
		}
	case **ogen.Example:
		if kind == "examples" {
			*t, found = d.Components.Examples[name]
		}
	case **ogen.SecurityScheme:
		if kind == "securitySchemes" {
			*t, found = d.Components.SecuritySchemes[name]
		}
	}
	if !found {
		return errors.Errorf("can't find value for %q", ptr)
	}
	return nil
}

// ---- observation: a fingerprint of the parsed API without Ref / location fields ------------------------

func fpSchema(s *jsonschema.Schema, depth int) string {
	if s == nil {
		return "nil"
	}
	if depth > 2 {
		return "..."
	}
	out := string(s.Type) + ":" + s.Format
	if s.Item != nil {
		out += "[" + fpSchema(s.Item, depth+1) + "]"
	}
	for _, p := range s.Properties {
		out += "{" + p.Name + "=" + fpSchema(p.Schema, depth+1) + "}"
	}
	return out
}

func fpParam(p *openapi.Parameter) string {
	if p == nil {
		return "nil"
	}
	return p.Name + "|" + string(p.In) + "|" + string(p.Style) + "|" + strconv.FormatBool(p.Explode) + "|" + strconv.FormatBool(p.Required) + "|" + p.Description + "|" + fpSchema(p.Schema, 0)
}

// zzFpExamples: whether media-type examples are part of the fingerprint (parser.Expand does not carry examples
// over - they are documentation, not behaviour - so the Expand round trip compares without them)
var zzFpExamples = true

func fpMedia(m map[string]*openapi.MediaType) string {
	var keys []string
	for k := range m {
		keys = append(keys, k)
	}
	sort.Strings(keys)
	out := ""
	for _, k := range keys {
		mt := m[k]
		out += "<" + k + ":" + fpSchema(mt.Schema, 0)
		var ek []string
		for e := range mt.Examples {
			ek = append(ek, e)
		}
		sort.Strings(ek)
		for _, e := range ek {
			if !zzFpExamples {
				break
			}
			ex := mt.Examples[e]
			if ex == nil {
				out += ";" + e + "=nil"
			} else {
				out += ";" + e + "=" + ex.Summary + "/" + string(ex.Value)
			}
		}
		out += ">"
	}
	return out
}

func fpResponse(r *openapi.Response) string {
	if r == nil {
		return "nil"
	}
	out := r.Description
	var hk []string
	for k := range r.Headers {
		hk = append(hk, k)
	}
	sort.Strings(hk)
	for _, k := range hk {
		out += "(" + k + ":" + fpParam(r.Headers[k]) + ")"
	}
	return out + fpMedia(r.Content)
}

func fpAPI(api *openapi.API) string {
	out := ""
	ops := append([]*openapi.Operation(nil), api.Operations...)
	for i := 1; i < len(ops); i++ { // insertion sort by operation id (sort.Slice needs reflection)
		for j := i; j > 0 && ops[j].OperationID < ops[j-1].OperationID; j-- {
			ops[j], ops[j-1] = ops[j-1], ops[j]
		}
	}
	for _, op := range ops {
		out += "\n" + op.OperationID + " " + op.HTTPMethod + " " + op.Path.String()
		for _, p := range op.Parameters {
			out += "\n  P " + fpParam(p)
		}
		for i, req := range op.Security {
			for _, sc := range req.Schemes {
				out += "\n  S" + strconv.Itoa(i) + " " + sc.Name + "|" + sc.Security.Type + "|" + sc.Security.Name + "|" + sc.Security.In + "|" + sc.Security.Scheme + "|" + sc.Security.Description
			}
		}
		if op.RequestBody != nil {
			out += "\n  B " + op.RequestBody.Description + "|" + strconv.FormatBool(op.RequestBody.Required) + fpMedia(op.RequestBody.Content)
		}
		var codes []int
		for c := range op.Responses.StatusCode {
			codes = append(codes, c)
		}
		sort.Ints(codes)
		for _, c := range codes {
			out += "\n  R" + strconv.Itoa(c) + " " + fpResponse(op.Responses.StatusCode[c])
		}
		out += "\n  Rdef " + fpResponse(op.Responses.Default)
	}
	return out
}

func zzParseRefs(mask int) (string, error) {
	zzDocs = zzExternal{"ext.json": zzExtDoc()}
	zzNodes = map[*yaml.Node]*ogen.Spec{}
	api, err := Parse(zzRoot(mask), Settings{External: zzDocs})
	if err != nil {
		return "", err
	}
	return fpAPI(api), nil
}

// HInline: nbits reference sites (those selected by sites) get a symbolic keep/inline choice.
func HInline(sites, symNames int) {
	zzRootQ, zzExtQ = "Q", "Q"
	if symNames != 0 {
		a, b := zz.Byte(), zz.Byte()
		zz.Assume(zz.And(zz.And(a >= 'A', a <= 'Z'), zz.And(b >= 'A', b <= 'Z')))
		zzRootQ, zzExtQ = string([]byte{a}), string([]byte{b})
	}
	mask := 0
	for i := 0; i < 12; i++ {
		if sites&(1<<i) != 0 && zz.Bool() {
			mask |= 1 << i
		}
	}
	ref, err0 := zzParseRefs(0)
	zz.Assert(err0 == nil, "the fully referenced document is accepted")
	got, err := zzParseRefs(mask)
	zz.Assert(err == nil, "a document with some references inlined is accepted")
	if err0 != nil || err != nil {
		return
	}
	zz.Cover("both-parsed")
	zz.Assert(got == ref, "replacing references by copies of their targets does not change the parsed API")
	// the two same-named components stay distinct
	zz.Assert(strings.Contains(ref, "P eq|header") && strings.Contains(ref, "P q|query"), "same-named components of the two files are not confused (parameters)")
	zz.Assert(strings.Contains(ref, "S0 KR|apiKey|X-K|header||root K") && strings.Contains(ref, "KX|apiKey|xk|query||ext K"), "a security scheme given as a reference carries the fields of its target (same-named schemes of the two files are not confused)")
	zz.Assert(strings.Contains(ref, "R200 ext R(X-H:X-H|header|simple|false|false|ext H|string:)"), "a relative reference inside the external file resolves against that file")
	zz.Assert(strings.Contains(ref, "R404 root R(X-H:X-H|header|simple|false|false|root H|integer:)"), "a root-relative reference after a reference into another file resolves against the root")
}

// ---- cycles ---------------------------------------------------------------------------------------------

// HCycle: reference cycles between non-schema components end in an error (no hang, no panic); schema
// cycles are accepted (recursive types).
func HCycle(kind int) {
	zzDocs = zzExternal{"ext.json": zzExtDoc()}
	zzNodes = map[*yaml.Node]*ogen.Spec{}
	zzRootQ, zzExtQ = "Q", "Q"
	s := zzRoot(0)
	switch kind {
	case 0: // response cycle of length 2
		s.Components.Responses["R"] = &ogen.Response{Ref: "#/components/responses/R2"}
		s.Components.Responses["R2"] = &ogen.Response{Ref: "#/components/responses/R"}
	case 1: // parameter referring to itself
		s.Components.Parameters["Q"] = &ogen.Parameter{Ref: "#/components/parameters/Q"}
	case 2: // cycle through the other file and back
		zzDocs["ext.json"].Components.Responses["R"] = &ogen.Response{Ref: "root.json#/components/responses/R"}
		zzDocs["root.json"] = s
		s.Components.Responses["R"] = &ogen.Response{Ref: "ext.json#/components/responses/R"}
	case 3: // header cycle inside the external file
		zzDocs["ext.json"].Components.Headers["H"] = &ogen.Header{Ref: "#/components/headers/H"}
	case 4: // request body cycle of length 3
		s.Components.RequestBodies["B"] = &ogen.RequestBody{Ref: "#/components/requestBodies/B2"}
		s.Components.RequestBodies["B2"] = &ogen.RequestBody{Ref: "#/components/requestBodies/B3"}
		s.Components.RequestBodies["B3"] = &ogen.RequestBody{Ref: "#/components/requestBodies/B"}
	case 5: // dangling reference
		s.Components.Responses["R"] = &ogen.Response{Ref: "#/components/responses/Nope"}
	case 6: // the same pointer text in both files is NOT a cycle: root R -> ext R
		s.Components.Responses["R"] = &ogen.Response{Ref: "ext.json#/components/responses/R"}
	}
	_, err := Parse(s, Settings{External: zzDocs})
	if kind == 6 {
		zz.Cover("same-pointer-two-files")
		zz.Assert(err == nil, "a root component re-exporting the same-named component of another file is not a cycle")
		return
	}
	zz.Cover("cycle-refused")
	zz.Assert(err != nil, "a reference cycle (or dangling reference) between non-schema components is refused with an error")
}


// HExpand: the dereferenced spec ogen can emit (parser.Expand) parses back to an equivalent API: for a
// symbolic keep/inline choice over the sites selected by `sites`, Parse -> Expand -> Parse gives the same
// fingerprint as the first Parse. The document holds recursive and shared schemas, references into another
// file, and same-named components in the two files.
func HExpand(sites int) {
	zzRootQ, zzExtQ = "Q", "Q"
	zzFpExamples = false
	defer func() { zzFpExamples = true }()
	// the references into the other file are inlined (sites 0, 2, 3, 7): Expand refuses, with a located
	// conflict error, documents in which two files contribute components of the same kind and name
	mask := 1 | 4 | 8 | 128
	for i := 0; i < 10; i++ {
		if sites&(1<<i) != 0 && zz.Bool() {
			mask |= 1 << i
		}
	}
	zzDocs = zzExternal{"ext.json": zzExtDoc()}
	zzNodes = map[*yaml.Node]*ogen.Spec{}
	api, err := Parse(zzRoot(mask), Settings{External: zzDocs})
	zz.Assert(err == nil, "the document is accepted (expand)")
	if err != nil {
		return
	}
	want := fpAPI(api)
	spec2, err := Expand(api)
	zz.Assert(err == nil, "Expand succeeds on a parsed API (also with recursive schemas)")
	if err != nil {
		return
	}
	api2, err := Parse(spec2, Settings{})
	zz.Assert(err == nil, "the dereferenced spec parses")
	if err != nil {
		return
	}
	zz.Cover("expanded-and-reparsed")
	zz.Assert(fpAPI(api2) == want, "the dereferenced spec parses back to an equivalent API")
}

