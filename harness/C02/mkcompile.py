#!/usr/bin/env python3
"""C02 side-condition driver: specs with hostile names and feature combinations; every package the
generator accepts must build. (Concrete enumeration; the solver-decided part of C02 is the names kernel.)"""
import sys, json
def api(paths, schemas="", extra=""):
    return "openapi: 3.0.3\ninfo: {title: t, version: '1'}\n" + extra + "paths:\n" + paths + ("components:\n  schemas:\n" + schemas if schemas else "")
def op(path, opid, body_ref=None, responses="        '200': {description: ok}\n", params=""):
    s = "  %s:\n    post:\n      operationId: %s\n" % (json.dumps(path), opid)
    if params:
        s += "      parameters:\n" + params
    if body_ref:
        s += "      requestBody: {required: true, content: {application/json: {schema: {$ref: '#/components/schemas/%s'}}}}\n" % body_ref
    s += "      responses:\n" + responses
    return s
P = []
# 1. response pattern and default sharing one schema (both become <Schema>StatusCode)
P.append(("patdef2", api("  /g:\n    get:\n      operationId: g\n      responses:\n        '200': {description: ok, content: {application/json: {schema: {$ref: '#/components/schemas/E'}}}}\n        '4XX': {description: c, content: {application/json: {schema: {$ref: '#/components/schemas/E'}}}}\n        default: {description: d, content: {application/json: {schema: {$ref: '#/components/schemas/E'}}}}\n",
                        "    E: {type: object, required: [m], properties: {m: {type: string}}}\n")))
P.append(("patdef", api(op("/a", "a", responses="        '200': {description: ok}\n        '4XX': {description: c, content: {application/json: {schema: {$ref: '#/components/schemas/E'}}}}\n        default: {description: d, content: {application/json: {schema: {$ref: '#/components/schemas/E'}}}}\n"),
                        "    E: {type: object, required: [m], properties: {m: {type: string}}}\n")))
# 2. hostile property names
props = {"type": "string", "func": "integer", "1st": "string", "a-b": "string", "a_b": "integer", "a b": "string", 'q"uote': "string", "back\\slash": "string", "ünï": "string", "_": "string", "$ref2": "string", "A": "integer"}
sch = "    H:\n      type: object\n      properties:\n" + "".join("        %s: {type: %s}\n" % (json.dumps(k), v) for k, v in props.items())
P.append(("hostprops", api(op("/h", "h", "H"), sch)))
# 3. hostile schema / operation / parameter names
P.append(("hostnames", api(op("/x/{type}", "get-type", "map", params="        - {name: type, in: path, required: true, schema: {type: string}}\n        - {name: 'x-y z', in: query, schema: {type: integer}}\n        - {name: '9lives', in: header, schema: {type: string}}\n"),
                           "    map: {type: object, properties: {range: {type: string}}}\n    Map_2: {type: object, properties: {select: {type: integer}}}\n")))
# 4. enum values needing escaping
P.append(("enums", api(op("/e", "e", "En"), "    En:\n      type: object\n      properties:\n        k: {type: string, enum: ['a', 'A', 'a b', 'a\"b', '1', '', 'type']}\n        n: {type: integer, enum: [1, -1, 0]}\n")))
# 5. nested / optional / nullable / arrays / maps
P.append(("shapes", api(op("/s", "s", "S"), "    S:\n      type: object\n      required: [a]\n      properties:\n        a: {type: array, items: {type: array, items: {type: string, nullable: true}}}\n        m: {type: object, additionalProperties: {type: integer}}\n        o: {type: object, properties: {p: {type: object, properties: {q: {type: string, format: uuid}}}}}\n        r: {$ref: '#/components/schemas/S'}\n        t: {type: string, format: date-time, nullable: true}\n")))
# 6. sum types
P.append(("sums", api(op("/u", "u", "U"), "    U:\n      oneOf:\n        - {type: string}\n        - {type: integer}\n        - {$ref: '#/components/schemas/V'}\n    V: {type: object, required: [k], properties: {k: {type: string}}}\n")))
# 7. several response codes, headers, no-content
P.append(("resps", api(op("/r", "r", responses="        '200': {description: ok, headers: {X-A: {schema: {type: integer}}, X-B: {required: true, schema: {type: array, items: {type: string}}}}, content: {application/json: {schema: {type: string}}}}\n        '204': {description: n}\n        '5XX': {description: s, content: {application/json: {schema: {type: integer}}}}\n"))))
# 8. names colliding after normalisation
P.append(("collide", api(op("/c", "c", "foo_bar"), "    foo_bar: {type: object, properties: {a_b: {type: string}, aB: {type: string}}}\n    FooBar2: {type: object, properties: {x: {type: string}}}\n")))
# 9. the C01 exchange spec as first written in this session: 200 with a response header + 4XX + default
P.append(("hdrpatdef", api("  /g:\n    get:\n      operationId: g\n      responses:\n        '200': {description: ok, headers: {X-R: {required: false, schema: {type: string}}}, content: {application/json: {schema: {$ref: '#/components/schemas/O'}}}}\n        '4XX': {description: c, content: {application/json: {schema: {$ref: '#/components/schemas/E'}}}}\n        default: {description: d, content: {application/json: {schema: {$ref: '#/components/schemas/E'}}}}\n",
                        "    E: {type: object, required: [m], properties: {m: {type: string}}}\n    O: {type: object, required: [v], properties: {v: {type: string}}}\n")))
import os
# 10. enum values that give little to build an identifier from (punctuation-only, non-ASCII-only, digit-first, near-collisions)
for i, vals in enumerate([['*', 'read', 'write'], ['_', 'a'], ['?', 'b', 'B'], ['\u20ac', 'eur'], ['\u4e2d\u6587', 'zh'], ['*', '?'], ['1', '1.0', '01'], ['a-b', 'a_b', 'a b', 'aB'], ['+', '-', '/', '<', '>', '=', '.'], ['Scope', 'scope', 'SCOPE'], ['\ufffdx', 'y'], ['\ufffd']]):
    P.append(("enumedge%d" % i, api("  /g:\n    get:\n      operationId: g\n      parameters:\n        - {name: scope, in: query, schema: {$ref: '#/components/schemas/Scope'}}\n      responses:\n        '200': {description: ok, content: {application/json: {schema: {type: array, items: {$ref: '#/components/schemas/Grant'}}}}}\n",
                  "    Scope: {type: string, enum: %s}\n    Grant: {type: object, required: [scope], properties: {scope: {$ref: '#/components/schemas/Scope'}}}\n" % json.dumps(vals))))
# 11. one generic (nullable / optional / array) type as the direct body of several operations' responses
for i, sch in enumerate(["{type: string, nullable: true}", "{type: integer, nullable: true}", "{type: array, items: {type: string}}", "{type: string, format: uuid, nullable: true}", "{type: object, additionalProperties: {type: string}}"]):
    pp = ""
    for opid in ("getNickname", "getAvatarURL", "getThird"):
        pp += "  /u/{id}/%s:\n    get:\n      operationId: %s\n      parameters:\n        - {name: id, in: path, required: true, schema: {type: string}}\n      responses:\n        '200': {description: ok, content: {application/json: {schema: %s}}}\n        '404': {description: none}\n" % (opid, opid, sch)
    P.append(("sharedgen%d" % i, api(pp)))
# 12. object-shaped parameters: free-form maps and structs, per style, alone in their spec
for i, (style, explode, sch) in enumerate([("deepObject", "true", "{type: object, additionalProperties: {type: string}}"), ("form", "true", "{type: object, additionalProperties: {type: string}}"),
                                           ("form", "false", "{type: object, additionalProperties: {type: integer}}"), ("deepObject", "true", "{type: object, required: [a], properties: {a: {type: string}, b: {type: integer}}}"),
                                           ("form", "true", "{type: object, properties: {a: {type: string}}}")]):
    P.append(("objparam%d" % i, api("  /items:\n    get:\n      operationId: searchItems\n      parameters:\n        - {name: filter, in: query, style: %s, explode: %s, schema: %s}\n      responses:\n        '200': {description: ok, content: {application/json: {schema: {type: array, items: {type: string}}}}}\n" % (style, explode, sch))))
for loc, style in (("header", "simple"), ("cookie", "form"), ("path", "simple"), ("path", "label"), ("path", "matrix")):
    req = "true" if loc == "path" else "false"
    P.append(("objparam_%s_%s" % (loc, style), api("  /items/{f}:\n    get:\n      operationId: it\n      parameters:\n        - {name: f, in: %s, required: %s, style: %s, schema: {type: object, required: [a], properties: {a: {type: string}, b: {type: integer}}}}\n%s      responses:\n        '200': {description: ok}\n" % (loc, req, style, "" if loc == "path" else "        - {name: f, in: path, required: true, schema: {type: string}}\n"))))
# 13. feature configurations on a spec with paths, webhooks, security, validation keywords
# 14. a second batch of hostile names / values (each must be refused with a diagnostic or build)
def obj_with_props(names):
    return "    H:\n      type: object\n      properties:\n" + "".join("        %s: {type: string}\n" % json.dumps(k) for k in names)
for i, names in enumerate([[""], [" "], ["\n"], ["\U0001F600"], ["-"], ["123"], ["a", "A"], ["a.b", "a/b"], ["\u00e9", "e\u0301"], ["go", "Go", "GO"], ["Value", "Set", "Null"], ["$", "@", "#"], ["x" * 300], ["String", "Error"]]):
    P.append(("hostprops2_%d" % i, api(op("/h", "h", "H"), obj_with_props(names))))
# known finding: a property whose field name equals a method generated for the struct (codec / validation methods, getters, setters)
fm = ""
for i, names in enumerate([["Encode", "Decode", "Validate"], ["a", "getA"], ["a", "setA"], ["MarshalJSON"]]):
    fm += obj_with_props(names).replace("    H:", "    H%d:" % i)
P.append(("fieldmethod", api("".join(op("/h%d" % i, "h%d" % i, "H%d" % i) for i in range(4)), fm)))
for i, (opid1, opid2) in enumerate([("a b", "a-b"), ("\u00e9", "e"), ("1", "2"), ("", "x"), ("type", "func"), ("Get", "get"), ("op", "Op")]):
    P.append(("hostops_%d" % i, api(op("/a", opid1) + op("/b", opid2))))
for i, pn in enumerate(["a b", "a-b", "1", "\u00e9", "X-\u00e9", "type", "a.b", "a[b]", "a[]"]):
    P.append(("hostparam_%d" % i, api(op("/p", "p", params="        - {name: %s, in: query, schema: {type: string}}\n        - {name: %s, in: header, schema: {type: integer}}\n" % (json.dumps(pn), json.dumps(pn))))))
for i, sch in enumerate(["{type: string, enum: ['']}", "{type: string, enum: [null, a], nullable: true}", "{type: integer, enum: [1, 1]}", "{type: string, default: 5}", "{type: integer, default: x}",
                         "{type: array, items: {type: array, items: {type: array, items: {type: string}}}}", "{type: object, additionalProperties: {type: object, additionalProperties: {type: integer}}}",
                         "{type: string, format: date, default: 'not-a-date'}", "{type: boolean, enum: [true]}", "{type: number, enum: [1.5, 2]}", "{type: string, pattern: '['}", "{type: string, pattern: '(?<=a)b'}",
                         "{type: object, properties: {a: {type: string}}, required: [a, b]}", "{type: object, maxProperties: 1, additionalProperties: true}", "{oneOf: [{type: string}, {type: string, format: uuid}]}",
                         "{anyOf: [{type: string}, {type: integer}]}", "{allOf: [{type: string}, {type: integer}]}", "{type: array, items: {}, minItems: 1}", "{}", "{nullable: true}"]):
    P.append(("hostschema_%d" % i, api(op("/s", "s", "X"), "    X: %s\n" % sch)))
# 15. parameters of one operation whose Go field names collide directly or after the location prefix is added
import itertools
def param(name, loc):
    return "        - {name: %s, in: %s, required: %s, schema: {type: string}}\n" % (json.dumps(name), loc, "true" if loc == "path" else "false")
for i, plist in enumerate(list(itertools.permutations([("path_id", "query"), ("id", "query"), ("id", "path")])) +
                          [[("query_x", "header"), ("x", "query"), ("x", "header")], [("x", "header"), ("x", "query"), ("query_x", "header")], [("id", "path"), ("id", "query"), ("id", "header"), ("id", "cookie")],
                           [("PathID", "query"), ("id", "path"), ("id", "query")], [("a-b", "query"), ("a_b", "query")], [("a-b", "query"), ("a_b", "header")]]):
    P.append(("paramcoll%d" % i, api(op("/x/{id}" if any(n == "id" and l == "path" for n, l in plist) else "/x", "getItem", params="".join(param(n, l) for n, l in plist)))))
# 16. objects with every combination of declared / additional / pattern properties, alone and with a side oneOf
k = 0
for props in ("", "properties: {a: {type: string}}, "):
    for addl in ("", "additionalProperties: {type: integer}, ", "additionalProperties: true, ", "additionalProperties: false, "):
        for pat in ("", "patternProperties: {'^x-': {type: string}}, ", "patternProperties: {'^x-': {type: string}, '^y-': {type: integer}}, "):
            for side in ("", "oneOf: [{type: object, properties: {k: {type: string}}, required: [k]}, {type: object, properties: {n: {type: integer}}, required: [n]}], "):
                P.append(("objcombo%d" % k, api(op("/o", "o", "X"), "    X: {type: object, %s%s%s%s}\n" % (props, addl, pat, side))))
                k += 1
# 17. recursion through every wrapper: optional / required / nullable member, array, map, oneOf, allOf, object with a side oneOf
for i, sch in enumerate([
    "    Node: {type: object, properties: {child: {$ref: '#/components/schemas/Wrapper'}}}\n    Wrapper: {type: object, oneOf: [{$ref: '#/components/schemas/Node'}, {$ref: '#/components/schemas/Leaf'}]}\n    Leaf: {type: object, required: [v], properties: {v: {type: string}}}\n",
    "    Node: {type: object, required: [child], properties: {child: {$ref: '#/components/schemas/Wrapper'}}}\n    Wrapper: {type: object, oneOf: [{$ref: '#/components/schemas/Node'}, {$ref: '#/components/schemas/Leaf'}]}\n    Leaf: {type: object, required: [v], properties: {v: {type: string}}}\n",
    "    Node: {type: object, properties: {child: {oneOf: [{$ref: '#/components/schemas/Node'}, {type: string}]}}}\n",
    "    Node: {type: object, properties: {kids: {type: array, items: {$ref: '#/components/schemas/Node'}}, m: {type: object, additionalProperties: {$ref: '#/components/schemas/Node'}}}}\n",
    "    Node: {type: object, properties: {n: {$ref: '#/components/schemas/Node', nullable: true}}}\n",
    "    Node: {allOf: [{type: object, properties: {a: {type: string}}}, {type: object, properties: {next: {$ref: '#/components/schemas/Node'}}}]}\n",
    "    Node: {type: object, properties: {a: {$ref: '#/components/schemas/B'}}}\n    B: {type: object, properties: {c: {$ref: '#/components/schemas/C'}}}\n    C: {type: object, properties: {n: {$ref: '#/components/schemas/Node'}}}\n",
    "    Node: {type: array, items: {$ref: '#/components/schemas/Node'}}\n",
    "    Node: {type: object, additionalProperties: {$ref: '#/components/schemas/Node'}}\n",
    "    Node: {oneOf: [{type: array, items: {$ref: '#/components/schemas/Node'}}, {type: string}]}\n",
]):
    P.append(("recur%d" % i, api(op("/n", "n", "Node"), sch)))
FEATURES = {}
fs = open(os.path.join(os.path.dirname(os.path.abspath(__file__)), "spec_features.yml")).read()
for name, (en, dis) in {
    "feat_all": ([], []),
    "feat_clientonly": ([], ["paths/server", "webhooks/server", "ogen/unimplemented"]),
    "feat_serveronly": ([], ["paths/client", "webhooks/client"]),
    "feat_nowebhooks": ([], ["webhooks/client", "webhooks/server"]),
    "feat_nopaths": ([], ["paths/client", "paths/server"]),
    "feat_validation": (["client/request/validation", "server/response/validation"], []),
    "feat_reqopts": (["client/request/options", "client/security/reentrant"], []),
    "feat_examples": (["debug/example_tests"], []),
    "feat_nounimpl": ([], ["ogen/unimplemented"]),
    "feat_everything": (["client/request/validation", "server/response/validation", "client/request/options", "client/security/reentrant", "debug/example_tests"], []),
}.items():
    P.append((name, fs))
    FEATURES[name] = (en, dis)
# format x keyword mixes: one property "x" of a JSON request body each (the first five were reported by a seed agent
# of round 3 as accepted specs whose package does not build; the others are neighbours of the same family)
for nm, sch in {
    "fmt_strfloat_maxlen": '{type: string, format: float64, maxLength: 5}',
    "fmt_strint_enum": '{type: string, format: int32, enum: ["1", "2"]}',
    "fmt_bytes_unique": '{type: array, uniqueItems: true, items: {type: string, format: byte}}',
    "fmt_int32_default_big": '{type: integer, format: int32, default: 4294967296}',
    "fmt_int32_enum_big": '{type: integer, format: int32, enum: [1, 4294967296]}',
    "fmt_strint_minlen": '{type: string, format: int64, minLength: 1}',
    "fmt_uuid_unique": '{type: array, uniqueItems: true, items: {type: string, format: uuid}}',
    "fmt_int8_default": '{type: integer, format: int8, default: 100}',
    "fmt_struint_default": '{type: string, format: uint64, default: "7"}',
}.items():
    P.append((nm, api(op("/f", "f", "F"), "    F:\n      type: object\n      properties:\n        x: %s\n" % sch)))
# operation groups (x-ogen-operation-group) whose members interleave when sorted by operation name; one group; mixed
def gop(path, opid, group):
    return "  %s:\n    get:\n      operationId: %s\n%s      responses:\n        '200': {description: ok}\n" % (path, opid, ("      x-ogen-operation-group: %s\n" % group) if group else "")
P.append(("groups_interleaved", api(gop("/a", "createImage", "Images") + gop("/b", "createUser", "Users") + gop("/c", "listImages", "Images") + gop("/d", "listUsers", "Users"))))
P.append(("groups_mixed", api(gop("/a", "alpha", "G1") + gop("/b", "beta", None) + gop("/c", "gamma", "G1") + gop("/d", "delta", "G2") + gop("/e", "epsilon", None))))
# two path parameters in a row next to a sibling sharing the first parameter, in both routing orders (must be refused
# or build)
def pp(path, opid, names):
    return "  %s:\n    get:\n      operationId: %s\n      parameters:\n%s      responses:\n        '200': {description: ok}\n" % (json.dumps(path), opid, "".join("        - {name: %s, in: path, required: true, schema: {type: string}}\n" % n for n in names))
P.append(("adjparams_a", api(pp("/files/{name}", "getFile", ["name"]) + pp("/files/{name}{ext}", "getFileWithExt", ["name", "ext"]))))
P.append(("adjparams_b", api(pp("/files/{name}", "zFile", ["name"]) + pp("/files/{name}{ext}", "aFileWithExt", ["name", "ext"]))))
P.append(("adjparams_c", api(pp("/files/{name}/raw", "getRaw", ["name"]) + pp("/files/{name}{ext}/raw", "getRawExt", ["name", "ext"]))))
P.append(("webhooksec", open(os.path.join(os.path.dirname(os.path.abspath(__file__)), "spec_webhook_security.yml")).read()))
P.append(("formnoprops", open(os.path.join(os.path.dirname(os.path.abspath(__file__)), "spec_form_no_props.yml")).read()))
P.append(("enumconst", open(os.path.join(os.path.dirname(os.path.abspath(__file__)), "spec_enum_const_collision.yml")).read()))
P.append(("patdefdup", open(os.path.join(os.path.dirname(os.path.abspath(__file__)), "spec_pattern_default_dup.yml")).read()))
print(json.dumps({"packages": [dict({"name": n, "spec": s}, **({"enable": FEATURES[n][0], "disable": FEATURES[n][1]} if n in FEATURES else {})) for n, s in P], "cases": {"quick": [], "thorough": []},
                  "bounds": {"specs": "%d specs: response pattern+default sharing a schema, hostile property / schema / operation / parameter names (keywords, digits-first, spaces, quotes, backslash, non-ASCII, '_', colliding after normalisation), enum values needing escaping, nested/optional/nullable/map/recursive shapes, sum types, several response codes with headers, enum values with nothing to build an identifier from, one generic type as the body of several operations, object-shaped parameters (maps and structs) per location and style, and one spec (paths, webhooks, security, validation keywords) under 10 feature configurations incl. client-only, server-only, validation, request options and example tests" % len(P)}}))
