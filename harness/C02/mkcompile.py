#!/usr/bin/env python3
"""C02 side-condition driver: specs with hostile names and feature combinations; every package the
generator accepts must build. (Concrete enumeration; the solver-decided part of C02 is the names kernel.)"""
import sys, json
def api(paths, schemas="", extra=""):
    return "openapi: 3.0.3\ninfo: {title: t, version: '1'}\n" + extra + "paths:\n" + paths + ("components:\n  schemas:\n" + schemas if schemas else "")
def op(path, opid, body_ref=None, responses="        '200': {description: ok}\n", params=""):
    s = "  %s:\n    post:\n      operationId: %s\n" % (json.dumps(path), opid)
    if params:
        s += "      parameters:\n" + params
    if body_ref:
        s += "      requestBody: {required: true, content: {application/json: {schema: {$ref: '#/components/schemas/%s'}}}}\n" % body_ref
    s += "      responses:\n" + responses
    return s
P = []
# 1. response pattern and default sharing one schema (both become <Schema>StatusCode)
P.append(("patdef2", api("  /g:\n    get:\n      operationId: g\n      responses:\n        '200': {description: ok, content: {application/json: {schema: {$ref: '#/components/schemas/E'}}}}\n        '4XX': {description: c, content: {application/json: {schema: {$ref: '#/components/schemas/E'}}}}\n        default: {description: d, content: {application/json: {schema: {$ref: '#/components/schemas/E'}}}}\n",
                        "    E: {type: object, required: [m], properties: {m: {type: string}}}\n")))
P.append(("patdef", api(op("/a", "a", responses="        '200': {description: ok}\n        '4XX': {description: c, content: {application/json: {schema: {$ref: '#/components/schemas/E'}}}}\n        default: {description: d, content: {application/json: {schema: {$ref: '#/components/schemas/E'}}}}\n"),
                        "    E: {type: object, required: [m], properties: {m: {type: string}}}\n")))
# 2. hostile property names
props = {"type": "string", "func": "integer", "1st": "string", "a-b": "string", "a_b": "integer", "a b": "string", 'q"uote': "string", "back\\slash": "string", "ünï": "string", "_": "string", "$ref2": "string", "A": "integer"}
sch = "    H:\n      type: object\n      properties:\n" + "".join("        %s: {type: %s}\n" % (json.dumps(k), v) for k, v in props.items())
P.append(("hostprops", api(op("/h", "h", "H"), sch)))
# 3. hostile schema / operation / parameter names
P.append(("hostnames", api(op("/x/{type}", "get-type", "map", params="        - {name: type, in: path, required: true, schema: {type: string}}\n        - {name: 'x-y z', in: query, schema: {type: integer}}\n        - {name: '9lives', in: header, schema: {type: string}}\n"),
                           "    map: {type: object, properties: {range: {type: string}}}\n    Map_2: {type: object, properties: {select: {type: integer}}}\n")))
# 4. enum values needing escaping
P.append(("enums", api(op("/e", "e", "En"), "    En:\n      type: object\n      properties:\n        k: {type: string, enum: ['a', 'A', 'a b', 'a\"b', '1', '', 'type']}\n        n: {type: integer, enum: [1, -1, 0]}\n")))
# 5. nested / optional / nullable / arrays / maps
P.append(("shapes", api(op("/s", "s", "S"), "    S:\n      type: object\n      required: [a]\n      properties:\n        a: {type: array, items: {type: array, items: {type: string, nullable: true}}}\n        m: {type: object, additionalProperties: {type: integer}}\n        o: {type: object, properties: {p: {type: object, properties: {q: {type: string, format: uuid}}}}}\n        r: {$ref: '#/components/schemas/S'}\n        t: {type: string, format: date-time, nullable: true}\n")))
# 6. sum types
P.append(("sums", api(op("/u", "u", "U"), "    U:\n      oneOf:\n        - {type: string}\n        - {type: integer}\n        - {$ref: '#/components/schemas/V'}\n    V: {type: object, required: [k], properties: {k: {type: string}}}\n")))
# 7. several response codes, headers, no-content
P.append(("resps", api(op("/r", "r", responses="        '200': {description: ok, headers: {X-A: {schema: {type: integer}}, X-B: {required: true, schema: {type: array, items: {type: string}}}}, content: {application/json: {schema: {type: string}}}}\n        '204': {description: n}\n        '5XX': {description: s, content: {application/json: {schema: {type: integer}}}}\n"))))
# 8. names colliding after normalisation
P.append(("collide", api(op("/c", "c", "foo_bar"), "    foo_bar: {type: object, properties: {a_b: {type: string}, aB: {type: string}}}\n    FooBar2: {type: object, properties: {x: {type: string}}}\n")))
# 9. the C01 exchange spec as first written in this session: 200 with a response header + 4XX + default
P.append(("hdrpatdef", api("  /g:\n    get:\n      operationId: g\n      responses:\n        '200': {description: ok, headers: {X-R: {required: false, schema: {type: string}}}, content: {application/json: {schema: {$ref: '#/components/schemas/O'}}}}\n        '4XX': {description: c, content: {application/json: {schema: {$ref: '#/components/schemas/E'}}}}\n        default: {description: d, content: {application/json: {schema: {$ref: '#/components/schemas/E'}}}}\n",
                        "    E: {type: object, required: [m], properties: {m: {type: string}}}\n    O: {type: object, required: [v], properties: {v: {type: string}}}\n")))
import os
P.append(("patdefdup", open(os.path.join(os.path.dirname(os.path.abspath(__file__)), "spec_pattern_default_dup.yml")).read()))
print(json.dumps({"packages": [{"name": n, "spec": s} for n, s in P], "cases": {"quick": [], "thorough": []},
                  "bounds": {"specs": "%d specs: response pattern+default sharing a schema, hostile property / schema / operation / parameter names (keywords, digits-first, spaces, quotes, backslash, non-ASCII, '_', colliding after normalisation), enum values needing escaping, nested/optional/nullable/map/recursive shapes, sum types, several response codes with headers" % len(P)}}))
