package gen

// C02 kernel: identifier synthesis (gen/names.go) on every ASCII spec-supplied name of the case's
// length: the result is an error or a Go identifier.

import zz "github.com/ogen-go/ogen/internal/zzverif"

var ZZEntries = map[string]func([]int){
	"HName":  func(a []int) { HName(a[0], a[1]) },
	"HName2": func(a []int) { HName2(a[0], a[1]) },
}

func identStart(c byte) bool {
	return zz.Or(zz.Or(zz.And(c >= 'a', c <= 'z'), zz.And(c >= 'A', c <= 'Z')), c == '_')
}

func identPart(c byte) bool { return zz.Or(identStart(c), zz.And(c >= '0', c <= '9')) }

// Go identifier grammar (ASCII): letter { letter | digit }, letter includes '_'
func isIdent(s string) bool {
	if len(s) == 0 {
		return false
	}
	ok := identStart(s[0])
	for i := 1; i < len(s); i++ {
		ok = zz.And(ok, identPart(s[i]))
	}
	return ok
}

var goKeywords = []string{"break", "default", "func", "interface", "select", "case", "defer", "go", "map", "struct", "chan", "else",
	"goto", "package", "switch", "const", "fallthrough", "if", "range", "type", "continue", "for", "import", "return", "var"}

func isKeyword(s string) bool {
	r := false
	for _, k := range goKeywords {
		r = zz.Or(r, zz.EqString(s, k))
	}
	return r
}

func asciiName(n int) string {
	s := zz.String(n)
	for i := 0; i < len(s); i++ {
		zz.Assume(s[i] < 0x80)
	}
	return s
}

func checkExported(r string, err error) {
	if err != nil {
		zz.Cover("name-refused")
		return
	}
	zz.Cover("name-produced")
	zz.Assert(isIdent(r), "a synthesised name satisfies the Go identifier grammar")
	zz.Assert(zz.Not(isKeyword(r)), "a synthesised name is not a Go keyword")
	zz.Assert(zz.Not(zz.EqString(r, "_")), "a synthesised name is not the blank identifier")
}

// fn: 0 pascal, 1 pascalSpecial, 2 pascalNonEmpty, 3 camel, 4 camelSpecial, 5 cleanSpecial
func HName(fn, n int) {
	s := asciiName(n)
	switch fn {
	case 0:
		checkExported(pascal(s))
	case 1:
		checkExported(pascalSpecial(s))
	case 2:
		r, err := pascalNonEmpty(s)
		checkExported(r, err)
		if err == nil {
			zz.Assert(r != "", "pascalNonEmpty never returns the empty name")
		}
	case 3, 4:
		var r string
		var err error
		if fn == 3 {
			r, err = camel(s)
		} else {
			r, err = camelSpecial(s)
		}
		if err == nil {
			zz.Assert(isIdent(r), "a camel-case name satisfies the Go identifier grammar")
		}
	default:
		r := cleanSpecial(s)
		ok := true
		for i := 0; i < len(r); i++ {
			ok = zz.And(ok, identPart(r[i]))
		}
		zz.Assert(ok, "cleanSpecial yields only identifier characters")
	}
}

// HName2: two-part inputs (as used for <operation><suffix> names)
func HName2(fn, n int) {
	a, b := asciiName(n), asciiName(1)
	switch fn {
	case 0:
		checkExported(pascal(a, b))
	default:
		r, err := pascalNonEmpty(a, b)
		checkExported(r, err)
	}
}
