package main

// C20 harness: cmd/ogen's generate() and cleanDir() with the environment stubbed under the engine
// (ogen.Parse, gen.NewGenerator, (*Generator).WriteSource, os.ReadDir/MkdirAll/Remove are replaced by
// the recording stubs below) and with the REAL environment natively (a scratch directory), so that a
// solver model replays against the real build.

import (
	"io/fs"
	"os"
	"path/filepath"
	"sort"

	"github.com/go-faster/errors"

	"github.com/ogen-go/ogen"
	"github.com/ogen-go/ogen/gen"
	zz "github.com/ogen-go/ogen/internal/zzverif"
)

var ZZEntries = map[string]func([]int){
	"HClean":    func(a []int) { HClean(a[0], a[1]) },
	"HGenerate": func(a []int) { HGenerate(a[0]) },
}

// ---- recording stubs (engine only)

var (
	zzStage     int // 0: Parse fails, 1: NewGenerator fails, 2: both succeed
	zzListing   []os.DirEntry
	zzReadErr   int // 0: listing, 1: not-exist, 2: other error
	zzRemoved   []string
	zzMkdirs    int
	zzWrites    int
	zzRemoveErr bool
)

var errZZ = errors.New("stubbed failure")

func zzParse(data []byte) (*ogen.Spec, error) {
	if zzStage == 0 {
		return nil, errZZ
	}
	return &ogen.Spec{}, nil
}

func zzNewGenerator(spec *ogen.Spec, opts gen.Options) (*gen.Generator, error) {
	if zzStage == 1 {
		return nil, errZZ
	}
	return &gen.Generator{}, nil
}

func zzWriteSource(g *gen.Generator, fs gen.FileSystem, pkgName string) error {
	zzWrites++
	return nil
}

func zzReadDir(name string) ([]os.DirEntry, error) {
	switch zzReadErr {
	case 1:
		return nil, &fs.PathError{Op: "open", Path: name, Err: fs.ErrNotExist}
	case 2:
		return nil, errZZ
	}
	return zzListing, nil
}

func zzMkdirAll(path string, perm os.FileMode) error {
	zzMkdirs++
	return nil
}

func zzRemove(name string) error {
	zzRemoved = append(zzRemoved, name)
	if zzRemoveErr {
		return errZZ
	}
	return nil
}

type zzEntry struct {
	name string
	dir  bool
}

func (e zzEntry) Name() string { return e.name }
func (e zzEntry) IsDir() bool  { return e.dir }
func (e zzEntry) Type() fs.FileMode {
	if e.dir {
		return fs.ModeDir
	}
	return 0
}
func (e zzEntry) Info() (fs.FileInfo, error) { return nil, errZZ }

// ---- the generator's own naming pattern, written byte-wise here

func hasPrefixBytes(s, p string) bool {
	if len(s) < len(p) {
		return false
	}
	ok := true
	for i := 0; i < len(p); i++ {
		ok = zz.And(ok, s[i] == p[i])
	}
	return ok
}

func hasSuffixBytes(s, p string) bool {
	if len(s) < len(p) {
		return false
	}
	ok := true
	for i := 0; i < len(p); i++ {
		ok = zz.And(ok, s[len(s)-len(p)+i] == p[i])
	}
	return ok
}

func ownFile(name string) bool {
	return zz.And(zz.Or(hasPrefixBytes(name, "oas"), hasPrefixBytes(name, "openapi")),
		zz.Or(hasSuffixBytes(name, "_gen.go"), hasSuffixBytes(name, "_gen_test.go")))
}

// symName: a file name of n bytes; mode 0: fully symbolic, 1: "oas"+symbolic+"_gen.go"-like frame with
// symbolic bytes overwriting single positions (near-miss names).
func symName(n, mode int) string {
	b := zz.Bytes(n)
	for i := range b {
		zz.Assume(zz.And(zz.And(b[i] >= 0x21, b[i] <= 0x7e), b[i] != '/'))
	}
	if mode == 1 && n >= 11 {
		frame := []byte("oas_________gen.go")
		for len(frame) < n { // longer names: widen the middle of the frame
			frame = append(frame[:4], append([]byte("_"), frame[4:]...)...)
		}
		if n < len(frame) {
			frame = append([]byte("oas"), []byte("_gen.go")...)
			for len(frame) < n {
				frame = append(frame[:3], append([]byte("x"), frame[3:]...)...)
			}
		}
		// keep three symbolic positions: one in the prefix, one in the middle, one in the suffix
		out := append([]byte(nil), frame[:n]...)
		out[1] = b[1]
		out[n/2] = b[n/2]
		out[n-3] = b[n-3]
		return string(out)
	}
	return string(b)
}

// HClean: cleanDir removes exactly the listed regular files that match the generator's own pattern.
func HClean(n, mode int) {
	names := []string{symName(n, mode), symName(n, mode)}
	zz.Assume(names[0] != names[1])
	dirs := []bool{zz.Bool(), zz.Bool()}
	var entries []os.DirEntry
	for i := range names {
		entries = append(entries, zzEntry{names[i], dirs[i]})
	}
	target := "/zz-target"
	if !zz.Symbolic() {
		t, err := os.MkdirTemp("", "zzc20-")
		if err != nil {
			panic(err)
		}
		defer os.RemoveAll(t)
		target = t
		for i := range names {
			p := filepath.Join(target, names[i])
			if dirs[i] {
				os.Mkdir(p, 0o755)
			} else {
				os.WriteFile(p, []byte("x"), 0o644)
			}
		}
	}
	zzRemoved = nil
	err := cleanDir(target, entries)
	zz.Assert(err == nil, "cleanDir succeeds when removals succeed")
	for i := range names {
		want := zz.And(!dirs[i], ownFile(names[i]))
		var gone bool
		if zz.Symbolic() {
			for _, r := range zzRemoved {
				if r == filepath.Join(target, names[i]) { // forks on symbolic names only through the Bool term
					gone = true
				}
			}
		} else {
			_, serr := os.Stat(filepath.Join(target, names[i]))
			gone = os.IsNotExist(serr)
		}
		if gone {
			zz.Cover("file-removed")
			zz.Assert(want, "cleaning removes only regular files matching oas*/openapi* and *_gen.go/*_gen_test.go")
		} else {
			zz.Cover("file-kept")
			zz.Assert(zz.Not(want), "cleaning removes every listed file that matches the generator's own pattern")
		}
	}
	if zz.Symbolic() {
		zz.Assert(len(zzRemoved) <= len(names), "cleanDir touches only listed entries")
	}
}

func snapshot(dir string) []string {
	var out []string
	filepath.WalkDir(dir, func(p string, d fs.DirEntry, err error) error {
		if err != nil {
			return nil
		}
		st, _ := os.Stat(p)
		sz := int64(-1)
		if st != nil && !d.IsDir() {
			sz = st.Size()
		}
		out = append(out, p+"|"+string(rune('0'+sz%10)))
		return nil
	})
	sort.Strings(out)
	return out
}

const zzValidSpec = "openapi: 3.0.3\ninfo: {title: t, version: '1'}\npaths:\n  /a:\n    get:\n      operationId: a\n      responses: {'200': {description: ok}}\n"

// a spec that parses but cannot be turned into IR: two operations that normalise to the same Go name
const zzIRFailSpec = "openapi: 3.0.3\ninfo: {title: t, version: '1'}\npaths:\n  /a:\n    get:\n      operationId: a_b\n      responses: {'200': {description: ok}}\n  /b:\n    get:\n      operationId: a-b\n      responses: {'200': {description: ok}}\n"

// HGenerate: a failure before writing (spec parse / IR build) returns an error and mutates nothing,
// even with clean requested; on success cleaning happens before writing.
func HGenerate(readMode int) {
	stage := zz.IntRange(0, 2)
	clean := zz.Bool()
	target := "/zz-target"
	var data []byte
	var before []string
	if zz.Symbolic() {
		zzStage = stage
		zzReadErr = readMode
		zzListing = []os.DirEntry{zzEntry{"oas_old_gen.go", false}, zzEntry{"user.go", false}, zzEntry{"sub", true}}
		zzRemoved, zzMkdirs, zzWrites = nil, 0, 0
	} else {
		t, err := os.MkdirTemp("", "zzc20g-")
		if err != nil {
			panic(err)
		}
		defer os.RemoveAll(t)
		target = filepath.Join(t, "out")
		if readMode == 2 {
			os.WriteFile(target, []byte("not a directory"), 0o644) // os.ReadDir fails with an error that is not "not exist"
		}
		if readMode == 0 {
			os.Mkdir(target, 0o755)
			os.WriteFile(filepath.Join(target, "oas_old_gen.go"), []byte("package x\n"), 0o644)
			os.WriteFile(filepath.Join(target, "user.go"), []byte("package x\n"), 0o644)
			os.Mkdir(filepath.Join(target, "sub"), 0o755)
		}
		switch stage {
		case 0:
			data = []byte("openapi: [unterminated")
		case 1:
			data = []byte(zzIRFailSpec)
		default:
			data = []byte(zzValidSpec)
		}
		before = snapshot(t)
	}
	err := generate(data, "api", target, clean, gen.Options{})
	if stage < 2 {
		zz.Cover("pre-write-failure")
		zz.Assert(err != nil, "a spec that fails to parse or to build IR makes generate return an error")
		if zz.Symbolic() {
			zz.Assert(len(zzRemoved) == 0 && zzMkdirs == 0 && zzWrites == 0, "a pre-write failure leaves the target directory untouched (no remove, mkdir or write)")
		} else {
			after := snapshot(filepath.Dir(target))
			same := len(after) == len(before)
			for i := 0; same && i < len(after); i++ {
				same = after[i] == before[i]
			}
			zz.Assert(same, "a pre-write failure leaves the target directory untouched (no remove, mkdir or write)")
		}
		return
	}
	zz.Cover("generation-proceeds")
	if zz.Symbolic() {
		if readMode == 2 {
			zz.Assert(err != nil && len(zzRemoved) == 0 && zzWrites == 0, "an unreadable target directory aborts before anything is removed or written")
			return
		}
		zz.Assert(err == nil, "generation succeeds when every stage succeeds")
		if !clean || readMode == 1 {
			zz.Assert(len(zzRemoved) == 0, "nothing is removed unless cleaning is requested on an existing directory")
		} else {
			zz.Assert(len(zzRemoved) == 1 && zzRemoved[0] == filepath.Join(target, "oas_old_gen.go"), "cleaning removes exactly the generator's own files (user files and subdirectories stay)")
		}
		zz.Assert(zzWrites == 1, "sources are written once")
	} else {
		if readMode == 2 {
			after := snapshot(filepath.Dir(target))
			same := len(after) == len(before)
			for i := 0; same && i < len(after); i++ {
				same = after[i] == before[i]
			}
			zz.Assert(err != nil && same, "an unreadable target directory aborts before anything is removed or written")
			return
		}
		zz.Assert(err == nil, "generation succeeds when every stage succeeds")
		_, e1 := os.Stat(filepath.Join(target, "user.go"))
		_, e2 := os.Stat(filepath.Join(target, "sub"))
		if readMode == 0 {
			zz.Assert(e1 == nil && e2 == nil, "cleaning removes exactly the generator's own files (user files and subdirectories stay)")
			_, e3 := os.Stat(filepath.Join(target, "oas_old_gen.go"))
			zz.Assert(os.IsNotExist(e3) == clean, "nothing is removed unless cleaning is requested on an existing directory")
		}
	}
}
