#!/usr/bin/env python3
"""C08 - translation validation of ogenregex.Convert with the SMT theory of regular expressions.

For every enumerated ECMA-262 pattern the REAL Convert/Compile of /repo's working tree is run (helper
regexrun, built through a go build overlay). When the linear-time engine is chosen, the ECMA pattern
(from its AST, Unicode-aware reading) and the CONVERTED RE2 text (parsed here) are both translated into
SMT-LIB RegLan terms and z3 decides whether the symmetric difference of the two *search* languages is
empty - for all subject strings, no length bound. A witness is replayed on the real
ogenregex.Compile(p).MatchString(w) and on regexp2 (ECMAScript|Unicode); only a witness on which the SMT
reference and regexp2 agree against ogen is a violation.
"""
import sys, os, json, subprocess, tempfile, time, random, shutil, itertools

import z3

REPO = os.environ.get("SYMGO_REPO") or "/repo"  # SYMGO_REPO: debug only (a scratch copy; outputs go to SYMGO_OUT)
VERIF = "/verif"
OUT = (os.environ.get("SYMGO_OUT") or "/tmp/symgo-out") if os.environ.get("SYMGO_REPO") else VERIF
ENV = dict(os.environ, GOFLAGS="-mod=mod", GOPROXY="off", GOSUMDB="off", GOTOOLCHAIN="local")

# ----------------------------------------------------------------------------- character sets
MAXCP = 0x2FFFF  # z3's character range

def rng(a, b=None):
    return [(a, a if b is None else b)]

def norm(ranges):
    rs = sorted((max(0, a), min(MAXCP, b)) for a, b in ranges if a <= b and a <= MAXCP)
    out = []
    for a, b in rs:
        if out and a <= out[-1][1] + 1:
            out[-1] = (out[-1][0], max(out[-1][1], b))
        else:
            out.append((a, b))
    return out

def neg(ranges):
    out, prev = [], 0
    for a, b in norm(ranges):
        if a > prev:
            out.append((prev, a - 1))
        prev = b + 1
    if prev <= MAXCP:
        out.append((prev, MAXCP))
    return out

DIGIT = rng(0x30, 0x39)
WORD = norm(rng(0x30, 0x39) + rng(0x41, 0x5A) + rng(0x5F) + rng(0x61, 0x7A))
ECMA_WS = norm([(c, c) for c in [0x20, 0x0C, 0x0A, 0x0D, 0x09, 0x0B, 0xA0, 0x1680] + list(range(0x2000, 0x200B)) + [0x2028, 0x2029, 0x202F, 0x205F, 0x3000, 0xFEFF]])
RE2_WS = norm([(c, c) for c in [0x09, 0x0A, 0x0C, 0x0D, 0x20]])
ECMA_DOT = neg([(0x0A, 0x0A), (0x0D, 0x0D), (0x2028, 0x2029)])
RE2_DOT = neg([(0x0A, 0x0A)])
ANY = [(0, MAXCP)]

def set_re(ranges):
    rs = norm(ranges)
    if not rs:
        return z3.Empty(z3.ReSort(z3.StringSort()))
    parts = []
    for a, b in rs:
        if a == b:
            parts.append(z3.Re(z3.Unit(z3.CharFromBv(z3.BitVecVal(a, 18)))) if False else z3.Re(chr_str(a)))
        else:
            parts.append(z3.Range(chr_str(a), chr_str(b)))
    return parts[0] if len(parts) == 1 else z3.Union(*parts)

def chr_str(cp):
    return z3.StringVal(chr(cp)) if cp < 0x110000 else z3.StringVal(chr(0xFFFD))

# ----------------------------------------------------------------------------- pattern ASTs (ECMA side)
# node: ("set", ranges, ecma_text) | ("cat", a, b) | ("alt", a, b) | ("q", node, lo, hi|None, lazy, text) | ("grp", node, capturing)

ATOMS = [
    ("set", rng(0x61), "a"), ("set", rng(0x62), "b"), ("set", rng(0x2D), "-"), ("set", rng(0x20), " "),
    ("set", ECMA_DOT, "."),
    ("set", DIGIT, r"\d"), ("set", neg(DIGIT), r"\D"), ("set", WORD, r"\w"), ("set", neg(WORD), r"\W"),
    ("set", ECMA_WS, r"\s"), ("set", neg(ECMA_WS), r"\S"),
    ("set", rng(0x0A), r"\n"), ("set", rng(0x09), r"\t"), ("set", rng(0x0B), r"\v"), ("set", rng(0x0C), r"\f"),
    ("set", rng(0x0A), r"\cJ"), ("set", rng(0x01), r"\ca"),
    ("set", rng(0x41), r"\x41"), ("set", rng(0x61), r"\u0061"), ("set", rng(0x1F600), r"\u{1F600}"), ("set", rng(0x2028), r"\u2028"),
    ("set", rng(0), r"\0"), ("set", rng(0x41), r"\101"), ("set", rng(0x2F), r"\/"), ("set", rng(0x2E), r"\."),
    ("set", rng(0xE9), "é"), ("set", rng(0x1F600), "\U0001F600"),
    # classes
    ("set", norm(rng(0x61) + rng(0x62)), "[ab]"), ("set", neg(rng(0x61)), "[^a]"), ("set", rng(0x61, 0x63), "[a-c]"),
    ("set", norm(DIGIT + rng(0x2D)), r"[\d-]"), ("set", ECMA_WS, r"[\s]"), ("set", neg(ECMA_WS), r"[^\s]"),
    ("set", norm(WORD + rng(0x2E)), r"[\w.]"), ("set", rng(0x08), r"[\b]"), ("set", [], "[]"), ("set", ANY, "[^]"),
    ("set", norm(rng(0x0A) + rng(0x61)), r"[\na]"), ("set", rng(0x41, 0x5A), r"[\x41-\x5A]"), ("set", norm(rng(0x5D) + rng(0x61)), r"[\]a]"),
    ("set", neg(norm(neg(DIGIT) + rng(0x61))), r"[^\Da]"), ("set", norm(ECMA_WS + DIGIT), r"[\s\d]"),
]
QUANTS = [(0, None, False, "*"), (1, None, False, "+"), (0, 1, False, "?"), (2, 2, False, "{2}"), (1, 2, False, "{1,2}"),
          (0, None, True, "*?"), (1, None, True, "+?"), (2, None, False, "{2,}")]

def text(n):
    k = n[0]
    if k == "set":
        return n[2]
    if k == "cat":
        return text(n[1]) + text(n[2])
    if k == "alt":
        return text(n[1]) + "|" + text(n[2])
    if k == "grp":
        return ("(" if n[2] else "(?:") + text(n[1]) + ")"
    if k == "q":
        inner = n[1]
        t = text(inner)
        if inner[0] in ("cat", "alt", "q"):
            t = "(?:" + t + ")"
        return t + n[5]
    raise ValueError(k)

def ecma_re(n):
    k = n[0]
    if k == "set":
        return set_re(n[1])
    if k == "cat":
        return z3.Concat(ecma_re(n[1]), ecma_re(n[2]))
    if k == "alt":
        return z3.Union(ecma_re(n[1]), ecma_re(n[2]))
    if k == "grp":
        return ecma_re(n[1])
    if k == "q":
        return quant(ecma_re(n[1]), n[2], n[3])
    raise ValueError(k)

def quant(r, lo, hi):
    if lo == 0 and hi is None:
        return z3.Star(r)
    if lo == 1 and hi is None:
        return z3.Plus(r)
    if lo == 0 and hi == 1:
        return z3.Option(r)
    if hi is None:
        return z3.Concat(z3.Loop(r, lo, lo), z3.Star(r))
    return z3.Loop(r, lo, hi)

def enumerate_patterns(max_size, limit, seed):
    """bounded-exhaustive by AST size; sampled (seeded) when over the limit"""
    by_size = {1: list(ATOMS)}
    for s in range(2, max_size + 1):
        cur = []
        for inner in by_size[s - 1]:
            for q in QUANTS:
                if inner[0] == "q":
                    continue
                cur.append(("q", inner, q[0], q[1], q[2], q[3]))
            cur.append(("grp", inner, True))
            if s >= 3:
                cur.append(("grp", inner, False))
        for ls in range(1, s - 1):
            rs = s - 1 - ls
            for a in by_size[ls]:
                for b in by_size.get(rs, []):
                    cur.append(("cat", a, b))
                    cur.append(("alt", a, b))
        by_size[s] = cur
    allp = [p for s in sorted(by_size) for p in by_size[s]]
    if len(allp) > limit:
        r = random.Random(4242 + seed)
        keep = by_size[1] + by_size.get(2, [])
        rest = [p for s in sorted(by_size) if s >= 3 for p in by_size[s]]
        keep = keep[:limit]
        if len(keep) < limit:
            keep += r.sample(rest, min(len(rest), limit - len(keep)))
        allp = keep
    out = []
    for p in allp:
        out.append((p, False, False))
    # edge anchors on a subset
    r = random.Random(99 + seed)
    for p in r.sample(allp, min(len(allp), max(20, limit // 10))):
        out.append((p, True, False))
        out.append((p, False, True))
        out.append((p, True, True))
    return out

def escape_sweep(tier):
    """every spelling of the escape families (ECMA-262 incl. Annex B), alone and inside classes; AST size 1"""
    base = []
    for c in "ABCDEFGHIJKLMNOPQRSTUVWXYZabcdefghijklmnopqrstuvwxyz":
        base.append((rng(ord(c) % 32), "\\c" + c))
    for v in range(256):
        base.append((rng(v), "\\x%02X" % v))
        if tier != "quick" or v % 3 == 0 or v in (16, 17, 127, 128, 255):
            base.append((rng(v), "\\x%02x" % v))
        base.append((rng(v), "\\%03o" % v))  # \000..\377
    for v in range(8, 0o100):
        base.append((rng(v), "\\%o" % v))  # \10..\77 (no groups in the pattern: legacy octal, Annex B)
    for v in range(8):
        base.append((rng(v), "\\0%o" % v))  # \00..\07
        if v:
            base.append((rng(v), "\\%o" % v))  # \1..\7
    base.append((rng(0), "\\0"))
    # legacy octal escapes take at most three digits and at most the value 0377: a fourth digit is a literal
    for t, v, tail in (("\\0123", 0o012, "3"), ("\\0777", 0o077, "7"), ("\\00007", 0, "07"), ("\\0400", 0o040, "0"), ("\\0101x", 0o010, "1x")):
        base.append((None, t, v, tail))
    for v in (0, 1, 0xF, 0x10, 0x7F, 0x80, 0xFF, 0x100, 0xFFF, 0x1000, 0x2028, 0xD7FF, 0xE000, 0xFFFD, 0xFFFF):
        base.append((rng(v), "\\u%04X" % v))
    for v in (0, 0x10, 0xFF, 0x100, 0xFFFF, 0x10000, 0x1F600, 0x2FFFF):
        base.append((rng(v), "\\u{%X}" % v))
    for c in "^$\\.*+?()[]{}|/-":
        base.append((rng(ord(c)), "\\" + c))
    # identity escapes of letters that mean nothing in ECMA-262 but something in RE2 (\a \z \A \Q \E \C \h ...)
    for c in "aeghijlmoqyzACEFGHIJKLMNOQRTUVXYZ":
        base.append((rng(ord(c)), "\\" + c))
    seen, out = set(), []
    for item in base:
        if len(item) == 4:  # an escape followed by literal text: a concatenation, bare only
            _, t, v, tail = item
            node = ("set", rng(v), t[:len(t) - len(tail)])
            for ch in tail:
                node = ("cat", node, ("set", rng(ord(ch)), ch))
            out.append(node)
            continue
        ranges, t = item
        if t in seen:
            continue
        seen.add(t)
        out.append(("set", ranges, t))
        out.append(("set", norm(ranges), "[" + t + "]"))
        out.append(("set", neg(ranges), "[^" + t + "]"))
        out.append(("set", norm(ranges + rng(0x61)), "[a" + t + "]"))
    # class escapes inside classes, positive and negated, alone and mixed
    for name, rs in (("d", DIGIT), ("D", neg(DIGIT)), ("w", WORD), ("W", neg(WORD)), ("s", ECMA_WS), ("S", neg(ECMA_WS))):
        e = "\\" + name
        out.append(("set", norm(rs), "[" + e + "]"))
        out.append(("set", neg(rs), "[^" + e + "]"))
        out.append(("set", norm(rs + rng(0x0A)), "[" + e + "\\n]"))
        out.append(("set", neg(norm(rs + rng(0x0A))), "[^" + e + "\\n]"))
        out.append(("set", norm(rs + rng(0x61, 0x63)), "[a-c" + e + "]"))
        out.append(("set", norm(rs + rng(0x2D)), "[" + e + "-]"))
    return out

# patterns outside the regular fragment: must run on the backtracking engine (or be rejected), never on the linear-time one
def _backrefs():
    out = []
    for n in range(1, 13):  # n capturing groups followed by a reference to the last one (\\1 .. \\12), also inside a class-free tail
        groups = "".join("(%s)" % chr(ord("a") + i) for i in range(n))
        out.append(groups + "\\%d" % n)
        out.append("^" + groups + "x\\%d$" % n)
    return out

NON_REGULAR = _backrefs() + ["(?=a)b", "a(?!b)", "(a)\\1", "(?<n>a)\\k<n>", "(?<=a)b", "(?<!a)b", "(a)|\\1b", "^(?=\\d)\\w+$", "(a)(b)\\2", "x(?=y)|z"]

# ----------------------------------------------------------------------------- RE2 side: Go's own parse of the executed expression
class Unsupported(Exception):
    pass

EPS = None

def pairs(r):
    out = []
    for i in range(0, len(r), 2):
        lo, hi = r[i], min(r[i + 1], MAXCP)
        if lo <= MAXCP:
            out.append((lo, hi))
    return norm(out)

def go_lang(n):
    """RegLan of a regexp/syntax node without anchors inside (anchors are handled by go_search)"""
    op = n["op"]
    sub = n.get("sub") or []
    if op == "nomatch":
        return z3.Empty(z3.ReSort(z3.StringSort()))
    if op == "empty":
        return z3.Re(z3.StringVal(""))
    if op == "cc":
        return set_re(pairs(n.get("r") or []))
    if op == "anynl":
        return set_re(neg(rng(0x0A)))
    if op == "any":
        return set_re(ANY)
    if op == "cap":
        return go_lang(sub[0])
    if op == "star":
        return z3.Star(go_lang(sub[0]))
    if op == "plus":
        return z3.Plus(go_lang(sub[0]))
    if op == "quest":
        return z3.Option(go_lang(sub[0]))
    if op == "rep":
        mx = n.get("max", 0)
        return quant(go_lang(sub[0]), n.get("min", 0), None if mx < 0 else mx)
    if op == "cat":
        if not sub:
            return z3.Re(z3.StringVal(""))
        parts = [go_lang(x) for x in sub]
        return parts[0] if len(parts) == 1 else z3.Concat(*parts)
    if op == "alt":
        parts = [go_lang(x) for x in sub]
        return parts[0] if len(parts) == 1 else z3.Union(*parts)
    raise Unsupported("regexp/syntax op %s inside the expression" % op)

def go_search(n):
    """search language (set of subjects with a match somewhere) of the executed expression"""
    op = n["op"]
    sub = n.get("sub") or []
    if op == "alt":
        return z3.Union(*[go_search(x) for x in sub])
    if op == "cap":
        return go_search(sub[0])
    if op == "bot" or op == "eot":
        return ALL  # the empty match at an edge exists in every subject
    if op == "cat":
        sa = ea = False
        items = list(sub)
        while items and items[0]["op"] == "bot":
            sa = True; items = items[1:]
        while items and items[-1]["op"] == "eot":
            ea = True; items = items[:-1]
        return search_lang(go_lang(dict(op="cat", sub=items)), sa, ea)
    return search_lang(go_lang(n), False, False)

def set_empty_ok(ranges):
    return set_re(ranges)

# ----------------------------------------------------------------------------- driver
ALL = z3.Full(z3.ReSort(z3.StringSort()))

def search_lang(r, sa, ea):
    parts = ([] if sa else [ALL]) + [r] + ([] if ea else [ALL])
    return parts[0] if len(parts) == 1 else z3.Concat(*parts)

def build_helper(scratch):
    ov = os.path.join(scratch, "ov.json")
    json.dump({"Replace": {REPO + "/internal/zzregexrun/main.go": VERIF + "/drivers/regexrun/main.go"}}, open(ov, "w"))
    binp = os.path.join(scratch, "regexrun")
    subprocess.run(["go", "build", "-overlay", ov, "-o", binp, "github.com/ogen-go/ogen/internal/zzregexrun"], cwd=REPO, env=ENV, check=True)
    return binp

def run_helper(binp, scratch, patterns=(), matches=()):
    f = os.path.join(scratch, "q.json")
    json.dump({"patterns": list(patterns), "matches": [list(m) for m in matches]}, open(f, "w"))
    out = subprocess.run([binp, f], capture_output=True, check=True).stdout
    return json.loads(out)

def zstr(v):
    """the Python string of a z3 string value"""
    w = v.as_string()
    if "\\" not in w:
        return w
    try:
        return bytes(w, "utf-8").decode("unicode_escape") if "\\u{" not in w else z3_unescape(w)
    except Exception:
        return z3_unescape(w)

def member(r, w):
    s = z3.Solver()
    s.set("timeout", 5000)
    s.add(z3.InRe(z3.StringVal(w), r))
    return str(s.check()) == "sat"

def main():
    tier = os.environ.get("VERIF_TIER") or (sys.argv[1] if len(sys.argv) > 1 else "quick")
    seed = int(os.environ.get("VERIF_SEED") or 0)
    t0 = time.time()
    max_size, limit = (4, 8000) if tier == "quick" else (5, 60000)
    budget = 150 if tier == "quick" else 2400
    scratch = tempfile.mkdtemp(prefix="verif-C08-")
    exit_code, lines = 0, []
    inconclusive, samples = [], []
    stats = dict(patterns=0, go_engine=0, fallback_engine=0, rejected=0, equivalence_unsat=0, witnesses=0, witnesses_not_confirmed=0,
                 reference_vs_regexp2_disagree=0, skipped_unsupported=0, solver_unknown=0, string_clause_checked=0, solver_time_s=0.0)
    violations = []
    try:
        binp = build_helper(scratch)
        pats = enumerate_patterns(max_size, limit, seed)
        sweep = escape_sweep(tier)
        for a in sweep:
            pats.append((a, False, False))
            pats.append((a, True, True))
        stats["escape_sweep_patterns"] = 2 * len(sweep)
        texts = []
        for (ast, sa, ea) in pats:
            body = text(ast)
            if ast[0] == "alt" and (sa or ea):
                body = "(?:" + body + ")"  # the anchors of this enumeration bind the whole pattern
            texts.append(("^" if sa else "") + body + ("$" if ea else ""))
        res = run_helper(binp, scratch, patterns=texts)["patterns"]
        pending = []
        probes = []
        probe_cap = 45 if tier == "quick" else 600
        stats["probe_solver_time_s"] = 0.0
        nres = run_helper(binp, scratch, patterns=NON_REGULAR)["patterns"]
        for t, r in zip(NON_REGULAR, nres):
            stats["non_regular_checked"] = stats.get("non_regular_checked", 0) + 1
            if r["engine"] == "go":
                violations.append(dict(pattern=t, converted=r["converted"], why="a pattern with look-around / back-reference is executed by the linear-time engine (approximated) instead of the backtracking ECMAScript engine"))
            elif r["engine"] == "panic":
                violations.append(dict(pattern=t, why="Convert/Compile panicked: " + r.get("err", "")))
            elif r["engine"] == "regexp2" and not r["string_ok"]:
                violations.append(dict(pattern=t, why="compiled pattern does not report its original source text"))
        for (ast, sa, ea), t, r in zip(pats, texts, res):
            stats["patterns"] += 1
            if r["engine"] == "panic":
                violations.append(dict(pattern=t, why="Convert/Compile panicked: " + r.get("err", "")))
                continue
            if r["engine"] in ("go", "regexp2"):
                stats["string_clause_checked"] += 1
                if not r["string_ok"]:
                    violations.append(dict(pattern=t, why="compiled pattern does not report its original source text"))
            if r["engine"] == "regexp2":
                stats["fallback_engine"] += 1
                continue
            if r["engine"] == "error":
                stats["rejected"] += 1
                continue
            stats["go_engine"] += 1
            if time.time() - t0 > budget:
                inconclusive.append("time budget exhausted before pattern %r" % t)
                break
            if not r.get("ast"):
                stats["skipped_unsupported"] += 1
                inconclusive.append("no regexp/syntax parse of the executed expression %r (from %r)" % (r.get("executed"), t))
                continue
            try:
                lr = go_search(r["ast"])
            except Unsupported as e:
                stats["skipped_unsupported"] += 1
                inconclusive.append("executed expression %r (from %r) is outside the fragment this check encodes: %s" % (r.get("executed"), t, e))
                continue
            le = search_lang(ecma_re(ast), sa, ea)
            w = z3.String("w")
            s = z3.Solver()
            s.set("timeout", 10000)
            s.add(z3.InRe(w, z3.Union(z3.Diff(le, lr), z3.Diff(lr, le))))
            q0 = time.time()
            ans = str(s.check())
            stats["solver_time_s"] += time.time() - q0
            if ans == "unsat":
                stats["equivalence_unsat"] += 1
                # engine probes: the language is right - does the COMPILED value's Match decide it? The solver picks a
                # member of the search language and, for anchored patterns, a non-member that CONTAINS a member
                # (u + m + v); the real Match is run on both below (a fast path that answers by substring search,
                # drops an anchor or caches by prefix shows up here, Convert's output being unchanged)
                if stats["probe_solver_time_s"] < probe_cap:
                    p0 = time.time()
                    mm, uu, vv = z3.String("m"), z3.String("u"), z3.String("v")
                    sp = z3.Solver()
                    sp.set("timeout", 2000)
                    sp.add(z3.InRe(mm, le), z3.Length(mm) <= 6)
                    if sa or ea:
                        sp.push()
                        sp.add(z3.Not(z3.InRe(z3.Concat(uu, mm, vv), le)), z3.Length(uu) + z3.Length(vv) >= 1, z3.Length(uu) <= 1, z3.Length(vv) <= 1)
                        if str(sp.check()) == "sat":
                            mdl = sp.model()
                            probes.append((t, zstr(mdl.eval(z3.Concat(uu, mm, vv), model_completion=True)), False))
                        sp.pop()
                    if str(sp.check()) == "sat":
                        probes.append((t, zstr(sp.model().eval(mm, model_completion=True)), True))
                    stats["probe_solver_time_s"] += time.time() - p0
                if len(samples) < 6:
                    samples.append(dict(pattern=t, converted=r["converted"], verdict="equivalent for all subject strings (unsat)"))
            elif ans == "sat":
                stats["witnesses"] += 1
                wit = s.model()[w].as_string()
                try:
                    wit = bytes(wit, "utf-8").decode("unicode_escape") if "\\u{" not in wit else z3_unescape(wit)
                except Exception:
                    wit = z3_unescape(wit)
                pending.append((t, ast, sa, ea, r["converted"], wit, le))
            else:
                stats["solver_unknown"] += 1
                inconclusive.append("z3 answered unknown for pattern %r" % t)
        if probes:
            stats["engine_probes"] = len(probes)
            pres = run_helper(binp, scratch, matches=[(p[0], p[1]) for p in probes])["matches"]
            for (t, subj, expect), m in zip(probes, pres):
                og, r2 = m["ogen"], m["regexp2"]
                if og in ("true", "false") and (og == "true") != expect:
                    if r2 in ("true", "false") and (r2 == "true") == expect:
                        violations.append(dict(pattern=t, witness=subj, witness_codepoints=[hex(ord(c)) for c in subj], expected=expect, ogen=og, regexp2=r2,
                                               why="the compiled pattern's Match disagrees with the language of its own (correctly converted) expression on a solver-chosen probe; regexp2 and the SMT reference agree against ogen"))
                    else:
                        stats["witnesses_not_confirmed"] += 1
                        inconclusive.append("engine probe for %r not confirmed by the two-oracle rule (ogen=%s regexp2=%s expected=%s subject=%r)" % (t, og, r2, expect, subj))
        if pending:
            mres = run_helper(binp, scratch, matches=[(p[0], p[5]) for p in pending])["matches"]
            for (t, ast, sa, ea, conv, wit, le), m in zip(pending, mres):
                ref = member(le, wit)
                og, r2 = m["ogen"], m["regexp2"]
                rec = dict(pattern=t, converted=conv, witness=wit, witness_codepoints=[hex(ord(c)) for c in wit], smt_ecma_reference=ref, ogen=og, regexp2=r2)
                if og in ("true", "false") and r2 in ("true", "false") and (r2 == "true") == ref and (og == "true") != ref:
                    violations.append(dict(rec, why="ogen's converted expression and the ECMA-262 pattern disagree on the witness; regexp2 and the SMT reference agree against ogen"))
                else:
                    stats["witnesses_not_confirmed"] += 1
                    if (r2 == "true") != ref:
                        stats["reference_vs_regexp2_disagree"] += 1
                    inconclusive.append("witness for %r not confirmed by the two-oracle rule (ogen=%s regexp2=%s smt-reference=%s witness=%r)" % (t, og, r2, ref, wit))
                if len(samples) < 10:
                    samples.append(rec)
    finally:
        shutil.rmtree(scratch, ignore_errors=True)

    # (i) SSA unit: Convert is total on arbitrary bytes (symbolic execution of the real code)
    ssa = subprocess.run([os.path.join(VERIF, "bin", "symgo"), "check", "C08", "--tier", tier], capture_output=True, text=True)
    ssa_ev = {}
    try:
        ssa_ev = json.load(open(os.path.join(OUT, "evidence", "C08.json")))
    except Exception:
        pass
    for l in ssa.stdout.splitlines():
        if l.startswith("VIOLATION") or l.startswith("  ") or l.startswith("INCONCLUSIVE") or l.startswith("SUMMARY"):
            lines.append(l)
    if ssa.returncode == 1:
        exit_code = 1
    elif ssa.returncode != 0:
        inconclusive.append("SSA unit convert-total did not finish cleanly (exit %d)" % ssa.returncode)
    known = load_known()
    nviol = 0
    rdir = os.path.join(OUT, "replays", "C08")
    for i, v in enumerate(violations):
        key = known_key(v, known)
        if key:
            lines.append("KNOWN-FINDING: property=C08 %s [pattern %r]" % (known[key], v["pattern"]))
            continue
        nviol += 1
        d = os.path.join(rdir, "%03d" % nviol)
        os.makedirs(d, exist_ok=True)
        json.dump(v, open(os.path.join(d, "witness.json"), "w"), indent=1, ensure_ascii=True)
        open(os.path.join(d, "replay.sh"), "w").write("#!/bin/sh\n# re-run the real engines on the witness\ncat %s/witness.json\n" % d)
        lines.append("VIOLATION property=C08 replay=%s" % d)
        lines.append("  %s" % json.dumps(v, ensure_ascii=True)[:400])
    if nviol:
        exit_code = 1
    elif exit_code == 1:
        pass
    elif inconclusive:
        exit_code = 2
    for l in lines:
        print(l)
    shown = inconclusive[:15] + (["... and %d more" % (len(inconclusive) - 15)] if len(inconclusive) > 15 else [])
    for l in shown:
        print("INCONCLUSIVE C08: " + l)
    if not samples:
        samples = [dict(note="no pattern reached the solver")]
    ev = {
        "property_id": "C08", "tier": tier, "seed": seed, "level": "translation_validation", "wall_s": round(time.time() - t0, 2), "violations": nviol + int(ssa_ev.get("violations", 0) or 0),
        "assumptions": ["SMT-LIB regular-expression semantics of z3 5.1.0", "the ECMA-262 (Unicode-aware, case-sensitive) reading of each enumerated AST written in this check", "this check's reader of the RE2 fragment that Convert emits (classes, escapes, groups, quantifiers, edge anchors)", "search semantics: language is Sigma* R Sigma* unless anchored at an edge", "subject alphabet: code points up to 0x2FFFF; invalid UTF-8 subjects are outside"],
        "coverage": {
            "programs": stats["go_engine"], "disagreements_checked": stats["witnesses"], "samples": samples,
            "patterns_enumerated": stats["patterns"], "bounds": "ECMA-262 patterns bounded-exhaustive by AST size <= %d over %d atoms (literals incl. non-BMP, dot, \\d\\w\\s and negations, \\c \\x \\u \\u{} octal and identity escapes, classes incl. negated/empty/[^]/[\\b]/ranges) x %d quantifiers, groups, alternation, concatenation (seeded sample of %d when larger), plus edge anchors on a sample; subject strings: ALL (no length bound) in the solver query" % (max_size, len(ATOMS), len(QUANTS), limit),
            "engine_choice": {"linear_time_go_regexp": stats["go_engine"], "backtracking_fallback": stats["fallback_engine"], "rejected_by_both": stats["rejected"]},
            "queries": {"unsat_equivalent": stats["equivalence_unsat"], "sat_witness": stats["witnesses"], "unknown": stats["solver_unknown"], "solver_time_s": round(stats["solver_time_s"], 2)},
            "witnesses_not_confirmed_by_two_oracle_rule": stats["witnesses_not_confirmed"], "reference_vs_regexp2_disagreements": stats["reference_vs_regexp2_disagree"],
            "string_clause_checked_natively": stats["string_clause_checked"], "converted_outside_re2_reader": stats["skipped_unsupported"],
            "inconclusive": shown,
            "non_regular_patterns_checked_for_engine_choice": stats.get("non_regular_checked", 0),
            "ssa_unit_convert_total": ssa_ev.get("coverage", {}),
            "out_of_claim": "the matching engines (Go regexp, regexp2) are not executed symbolically - their semantics enter through the RegLan translators (trusted base of a translation-validation claim, validated by witness replay); \\b/\\B, interior anchors, back-references and look-around are outside the regular fragment and only checked for engine choice; Convert's totality on arbitrary bytes is a separate SSA unit (check C08 unit 'convert-total').",
        },
    }
    os.makedirs(os.path.join(OUT, "evidence"), exist_ok=True)
    json.dump(ev, open(os.path.join(OUT, "evidence", "C08.json"), "w"), indent=1, ensure_ascii=True)
    print("SUMMARY C08 tier=%s exit=%d patterns=%d go-engine=%d fallback=%d rejected=%d unsat=%d witnesses=%d unconfirmed=%d unknown=%d unsupported=%d solver=%.1fs wall=%.1fs" % (
        tier, exit_code, stats["patterns"], stats["go_engine"], stats["fallback_engine"], stats["rejected"], stats["equivalence_unsat"], stats["witnesses"],
        stats["witnesses_not_confirmed"], stats["solver_unknown"], stats["skipped_unsupported"], stats["solver_time_s"], time.time() - t0))
    return exit_code

def z3_unescape(s):
    import re as _re
    def rep(m):
        return chr(int(m.group(1), 16))
    s = _re.sub(r"\\u\{([0-9a-fA-F]+)\}", rep, s)
    s = _re.sub(r"\\x([0-9a-fA-F]{2})", rep, s)
    return s

def load_known():
    out = {}
    try:
        for line in open(os.path.join(VERIF, "known_findings.txt")):
            line = line.strip()
            if line.startswith("known:") and "property=C08" in line:
                parts = line[len("known:"):].split()
                key = [p for p in parts if p.startswith("key=")][0][4:]
                out[key] = " ".join(p for p in parts if not p.startswith("key=") and not p.startswith("property="))
    except FileNotFoundError:
        pass
    return out

def known_key(v, known):
    # region keys of C08 name a pattern feature: key=C08/<feature> matches when the feature text occurs in the pattern
    for k in known:
        feat = k.split("/", 1)[1] if "/" in k else k
        if feat.startswith("pattern-contains:") and feat[len("pattern-contains:"):] in v.get("pattern", ""):
            return k
    return None

if __name__ == "__main__":
    sys.exit(main())
