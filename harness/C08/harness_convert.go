package ogenregex

// C08 (i): Convert is total - no panic, terminates - on every byte string of the case's length.

import zz "github.com/ogen-go/ogen/internal/zzverif"

var ZZEntries = map[string]func([]int){
	"HConvert": func(a []int) { HConvert(a[0]) },
}

func HConvert(n int) {
	p := zz.String(n)
	out, ok := Convert(p) // a panic reaching the harness is the violation
	if ok {
		zz.Cover("converted")
		if n == 0 {
			zz.Assert(out == "", "the empty pattern converts to the empty expression")
		}
	} else {
		zz.Cover("not-convertible")
		zz.Assert(out == "", "a pattern that is not convertible yields no expression text")
	}
}
