package uri

// C12 harness: uri.NormalizeEscapedPath against an RFC 3986 reference written
// here, for every string of the case's length (all 256 byte values at every
// position).

import zz "github.com/ogen-go/ogen/internal/zzverif"

var ZZEntries = map[string]func([]int){
	"HNormalize": func(a []int) { HNormalize(a[0]) },
}

func refHex(c byte) bool {
	if '0' <= c && c <= '9' {
		return true
	}
	if 'a' <= c && c <= 'f' {
		return true
	}
	if 'A' <= c && c <= 'F' {
		return true
	}
	return false
}

func refUpperHex(c byte) bool {
	if '0' <= c && c <= '9' {
		return true
	}
	if 'A' <= c && c <= 'F' {
		return true
	}
	return false
}

func refUnhex(c byte) byte {
	if '0' <= c && c <= '9' {
		return c - '0'
	}
	if 'a' <= c && c <= 'f' {
		return c - 'a' + 10
	}
	if 'A' <= c && c <= 'F' {
		return c - 'A' + 10
	}
	return 0
}

// RFC 3986 section 2.3
func refUnreserved(c byte) bool {
	if 'a' <= c && c <= 'z' {
		return true
	}
	if 'A' <= c && c <= 'Z' {
		return true
	}
	if '0' <= c && c <= '9' {
		return true
	}
	return c == '-' || c == '.' || c == '_' || c == '~'
}

// refValid: every '%' is followed by two hex digits (branch-free over symbolic bytes).
func refValid(s string) bool {
	ok := true
	for i := 0; i < len(s); i++ {
		good := false
		if i+2 < len(s) {
			good = zz.And(refHex(s[i+1]), refHex(s[i+2]))
		}
		ok = zz.And(ok, zz.Or(s[i] != '%', good))
	}
	return ok
}

// refDecode percent-decodes a string already known to be valid.
func refDecode(s string) []byte {
	var out []byte
	for i := 0; i < len(s); {
		if s[i] == '%' {
			if i+2 >= len(s) {
				zz.Fail("refDecode: truncated escape in a string reported valid")
				return out
			}
			out = append(out, refUnhex(s[i+1])<<4|refUnhex(s[i+2]))
			i += 3
		} else {
			out = append(out, s[i])
			i++
		}
	}
	return out
}

func countLiteralSlash(s string) int {
	n := 0
	for i := 0; i < len(s); {
		if s[i] == '%' {
			i += 3
			continue
		}
		n += zz.IteInt(s[i] == '/', 1, 0)
		i++
	}
	return n
}

// countKeptEscapes: escapes of bytes that are not unreserved (these must stay escapes: a reserved or excluded
// character and its escape are different things, RFC 3986 sections 2.2 and 6.2.2.2).
func countKeptEscapes(s string) int {
	n := 0
	for i := 0; i < len(s); {
		if s[i] == '%' && i+2 < len(s) {
			n += zz.IteInt(refUnreserved(refUnhex(s[i+1])<<4|refUnhex(s[i+2])), 0, 1)
			i += 3
			continue
		}
		i++
	}
	return n
}

func countEscapes(s string) int {
	n := 0
	for i := 0; i < len(s); i++ {
		n += zz.IteInt(s[i] == '%', 1, 0)
	}
	return n
}

func HNormalize(n int) {
	s := zz.String(n)
	out, ok := NormalizeEscapedPath(s) // A1: a panic reaching the harness is a violation
	zz.Assert(ok == refValid(s), "A2: ok is true exactly when every % starts a valid escape")
	if !ok {
		zz.Cover("invalid-escape-reported")
		zz.Assert(out == "", "A6: invalid input yields the empty string")
		return
	}
	if len(out) != len(s) {
		zz.Cover("needless-escape-removed")
	}
	zz.Assert(zz.EqBytes(refDecode(out), refDecode(s)), "A3: result decodes to the same octets as the input")
	// A4: remaining escapes are upper-case and necessary
	for i := 0; i < len(out); {
		if out[i] != '%' {
			i++
			continue
		}
		if i+2 >= len(out) {
			zz.Fail("A4: result ends inside an escape")
			return
		}
		zz.Cover("escape-kept")
		zz.Assert(zz.And(refUpperHex(out[i+1]), refUpperHex(out[i+2])), "A4: kept escapes use upper-case hex")
		zz.Assert(!refUnreserved(refUnhex(out[i+1])<<4|refUnhex(out[i+2])), "A4: kept escapes encode a byte that must be escaped")
		i += 3
	}
	zz.Assert(countLiteralSlash(out) == countLiteralSlash(s), "A4b: literal and escaped slashes are not converted into each other")
	zz.Assert(countEscapes(out) == countKeptEscapes(s), "A4c: every escape of a byte that is not unreserved stays an escape (only unreserved bytes are unescaped)")
	out2, ok2 := NormalizeEscapedPath(out)
	zz.Assert(zz.And(ok2, out2 == out), "A5: normalising twice equals normalising once")
}
