package parser

// C11: totality of parser.Parse on structurally damaged documents. A valid spec that uses every
// component kind is built as *ogen.Spec values (what ogen.Parse hands to the parser); one symbolic
// selector picks a node to null / empty / retype, and selected scalar fields (status-code keys, parameter
// locations and styles, media-type keys, reference texts, security fields) are symbolic byte strings.
// A panic reaching the harness is the violation; an error or a result are both fine.

import (
	"encoding/json"

	"github.com/go-faster/yaml"

	"github.com/ogen-go/ogen"
	zz "github.com/ogen-go/ogen/internal/zzverif"
)

func zzBool(b bool) *bool { return &b }

func zzU64(v uint64) *uint64 { return &v }

func zzBaseSpec() *ogen.Spec {
	thing := &ogen.Schema{
		Type:     "object",
		Required: []string{"name"},
		Properties: ogen.Properties{
			{Name: "name", Schema: &ogen.Schema{Type: "string", MinLength: zzU64(1), MaxLength: zzU64(9)}},
			{Name: "size", Schema: &ogen.Schema{Type: "integer", Format: "int32", Minimum: ogen.Num("0"), Maximum: ogen.Num("10"), Default: ogen.Default(`1`)}},
			{Name: "kind", Schema: &ogen.Schema{Type: "string", Enum: ogen.Enum{json.RawMessage(`"a"`), json.RawMessage(`"b"`)}}},
			{Name: "parts", Schema: &ogen.Schema{Type: "array", Items: &ogen.Items{Item: &ogen.Schema{Type: "string"}}, MinItems: zzU64(1), UniqueItems: true}},
			{Name: "sub", Schema: &ogen.Schema{Ref: "#/components/schemas/Thing"}},
			{Name: "any", Schema: &ogen.Schema{OneOf: []*ogen.Schema{{Type: "string"}, {Type: "integer"}}}},
			{Name: "all", Schema: &ogen.Schema{AllOf: []*ogen.Schema{{Ref: "#/components/schemas/Err"}, {Type: "object", Properties: ogen.Properties{{Name: "x", Schema: &ogen.Schema{Type: "boolean"}}}}}}},
			{Name: "map", Schema: &ogen.Schema{Type: "object", AdditionalProperties: &ogen.AdditionalProperties{Schema: ogen.Schema{Type: "string"}}}},
		},
	}
	errS := &ogen.Schema{Type: "object", Required: []string{"m"}, Properties: ogen.Properties{{Name: "m", Schema: &ogen.Schema{Type: "string"}}}}
	return &ogen.Spec{
		// the document node ogen.Parse keeps for pointer look-ups: an empty mapping (every look-up fails cleanly)
		Raw:     &yaml.Node{Kind: yaml.DocumentNode, Content: []*yaml.Node{{Kind: yaml.MappingNode, Tag: "!!map"}}},
		OpenAPI: "3.1.0",
		Info:    ogen.Info{Title: "t", Version: "1"},
		Servers: []ogen.Server{{URL: "https://{h}/v1", Variables: map[string]ogen.ServerVariable{"h": {Default: "x", Enum: []string{"x", "y"}}}}},
		Security: ogen.SecurityRequirements{
			{"key": []string{}},
		},
		Paths: ogen.Paths{
			"/things/{id}": &ogen.PathItem{
				Parameters: []*ogen.Parameter{
					{Name: "id", In: "path", Required: true, Schema: &ogen.Schema{Type: "integer"}},
				},
				Get: &ogen.Operation{
					OperationID: "getThing",
					Parameters: []*ogen.Parameter{
						{Ref: "#/components/parameters/Q"},
						{Name: "h", In: "header", Schema: &ogen.Schema{Type: "array", Items: &ogen.Items{Item: &ogen.Schema{Type: "string"}}}, Style: "simple", Explode: zzBool(false),
							Examples: map[string]*ogen.Example{"e": {Ref: "#/components/examples/E"}}},
						{Name: "c", In: "cookie", Content: map[string]ogen.Media{"application/json": {Schema: &ogen.Schema{Type: "string"}}}},
					},
					Responses: ogen.Responses{
						"200": &ogen.Response{
							Description: "ok",
							Headers:     map[string]*ogen.Header{"X-A": {Schema: &ogen.Schema{Type: "integer"}}, "X-B": {Ref: "#/components/headers/H"}},
							Content: map[string]ogen.Media{"application/json": {
								Schema:   &ogen.Schema{Ref: "#/components/schemas/Thing"},
								Examples: map[string]*ogen.Example{"one": {Value: ogen.ExampleValue(`{"name":"n"}`)}, "two": {Ref: "#/components/examples/E"}},
							}},
							Links: map[string]*ogen.Link{"l": {OperationID: "putThing"}, "r": {Ref: "#/components/links/L"}},
						},
						"4XX":     &ogen.Response{Ref: "#/components/responses/R"},
						"default": &ogen.Response{Description: "d", Content: map[string]ogen.Media{"application/json": {Schema: &ogen.Schema{Ref: "#/components/schemas/Err"}}}},
					},
				},
				Put: &ogen.Operation{
					OperationID: "putThing",
					Security:    ogen.SecurityRequirements{{"bearer": []string{}}, {}},
					RequestBody: &ogen.RequestBody{Ref: "#/components/requestBodies/B"},
					Responses:   ogen.Responses{"204": &ogen.Response{Description: "done"}},
				},
				Post: &ogen.Operation{
					OperationID: "postThing",
					RequestBody: &ogen.RequestBody{Required: true, Content: map[string]ogen.Media{
						"multipart/form-data": {
							Schema:   &ogen.Schema{Type: "object", Properties: ogen.Properties{{Name: "f", Schema: &ogen.Schema{Type: "string", Format: "binary"}}, {Name: "o", Schema: &ogen.Schema{Type: "string"}}}},
							Encoding: map[string]ogen.Encoding{"o": {ContentType: "text/plain", Style: "form", Headers: map[string]*ogen.Header{"X-E": {Schema: &ogen.Schema{Type: "string"}}}}},
						},
					}},
					Responses: ogen.Responses{"201": &ogen.Response{Description: "created"}},
				},
			},
			"/ref": &ogen.PathItem{Ref: "#/components/pathItems/P"},
		},
		Components: &ogen.Components{
			Schemas:         map[string]*ogen.Schema{"Thing": thing, "Err": errS},
			Responses:       map[string]*ogen.Response{"R": {Description: "r", Content: map[string]ogen.Media{"application/json": {Schema: &ogen.Schema{Ref: "#/components/schemas/Err"}}}}},
			Parameters:      map[string]*ogen.Parameter{"Q": {Name: "q", In: "query", Schema: &ogen.Schema{Type: "object", Properties: ogen.Properties{{Name: "a", Schema: &ogen.Schema{Type: "string"}}}}, Style: "deepObject", Explode: zzBool(true)}},
			Examples:        map[string]*ogen.Example{"E": {Value: ogen.ExampleValue(`"v"`)}},
			RequestBodies:   map[string]*ogen.RequestBody{"B": {Content: map[string]ogen.Media{"application/json": {Schema: &ogen.Schema{Ref: "#/components/schemas/Thing"}}, "text/plain": {Schema: &ogen.Schema{Type: "string"}}}}},
			Headers:         map[string]*ogen.Header{"H": {Schema: &ogen.Schema{Type: "string"}}},
			SecuritySchemes: map[string]*ogen.SecurityScheme{"key": {Type: "apiKey", In: "header", Name: "X-Key"}, "bearer": {Type: "http", Scheme: "bearer"}, "o": {Type: "oauth2", Flows: &ogen.OAuthFlows{Implicit: &ogen.OAuthFlow{AuthorizationURL: "https://a", Scopes: map[string]string{"r": "read"}}}}},
			Links:           map[string]*ogen.Link{"L": {OperationID: "getThing"}},
			PathItems: map[string]*ogen.PathItem{"P": {Get: &ogen.Operation{OperationID: "getRef", Responses: ogen.Responses{"200": &ogen.Response{Description: "ok"}}}}},
		},
	}
}

// zzFaults: single-fault structural mutations (null a node, empty a container, drop a required part).
var zzFaults = []func(s *ogen.Spec){
	func(s *ogen.Spec) {},
	func(s *ogen.Spec) { s.Paths["/things/{id}"] = nil },
	func(s *ogen.Spec) { s.Paths["/things/{id}"].Get = nil },
	func(s *ogen.Spec) { s.Paths["/things/{id}"].Parameters[0] = nil },
	func(s *ogen.Spec) { s.Paths["/things/{id}"].Parameters[0].Schema = nil },
	func(s *ogen.Spec) { s.Paths["/things/{id}"].Get.Parameters[0] = nil },
	func(s *ogen.Spec) { s.Paths["/things/{id}"].Get.Parameters[1].Schema = nil },
	func(s *ogen.Spec) { s.Paths["/things/{id}"].Get.Parameters[1].Schema.Items = nil },
	func(s *ogen.Spec) { s.Paths["/things/{id}"].Get.Parameters[1].Schema.Items.Item = nil },
	func(s *ogen.Spec) { s.Paths["/things/{id}"].Get.Parameters[1].Examples["e"] = nil },
	func(s *ogen.Spec) { s.Paths["/things/{id}"].Get.Parameters[2].Content = map[string]ogen.Media{} },
	func(s *ogen.Spec) { s.Paths["/things/{id}"].Get.Parameters[2].Content = map[string]ogen.Media{"application/json": {}} },
	func(s *ogen.Spec) { s.Paths["/things/{id}"].Get.Responses = nil },
	func(s *ogen.Spec) { s.Paths["/things/{id}"].Get.Responses["200"] = nil },
	func(s *ogen.Spec) { s.Paths["/things/{id}"].Get.Responses["200"].Headers["X-A"] = nil },
	func(s *ogen.Spec) { s.Paths["/things/{id}"].Get.Responses["200"].Headers["X-A"].Schema = nil },
	func(s *ogen.Spec) { s.Paths["/things/{id}"].Get.Responses["200"].Links["l"] = nil },
	func(s *ogen.Spec) { s.Paths["/things/{id}"].Get.Responses["200"].Links["r"] = nil },
	func(s *ogen.Spec) {
		m := s.Paths["/things/{id}"].Get.Responses["200"].Content["application/json"]
		m.Schema = nil
		s.Paths["/things/{id}"].Get.Responses["200"].Content["application/json"] = m
	},
	func(s *ogen.Spec) {
		s.Paths["/things/{id}"].Get.Responses["200"].Content["application/json"].Examples["one"] = nil
	},
	func(s *ogen.Spec) {
		s.Paths["/things/{id}"].Get.Responses["200"].Content["application/json"].Examples["two"] = nil
	},
	func(s *ogen.Spec) { s.Paths["/things/{id}"].Get.Responses["4XX"] = nil },
	func(s *ogen.Spec) { s.Paths["/things/{id}"].Get.Responses["default"] = nil },
	func(s *ogen.Spec) { s.Paths["/things/{id}"].Put.RequestBody = nil },
	func(s *ogen.Spec) { s.Paths["/things/{id}"].Put.Security = ogen.SecurityRequirements{nil} },
	func(s *ogen.Spec) { s.Paths["/things/{id}"].Put.Responses["204"] = nil },
	func(s *ogen.Spec) { s.Paths["/things/{id}"].Post.RequestBody.Content = nil },
	func(s *ogen.Spec) {
		m := s.Paths["/things/{id}"].Post.RequestBody.Content["multipart/form-data"]
		m.Schema = nil
		s.Paths["/things/{id}"].Post.RequestBody.Content["multipart/form-data"] = m
	},
	func(s *ogen.Spec) {
		s.Paths["/things/{id}"].Post.RequestBody.Content["multipart/form-data"].Schema.Properties[0].Schema = nil
	},
	func(s *ogen.Spec) {
		s.Paths["/things/{id}"].Post.RequestBody.Content["multipart/form-data"].Encoding["o"].Headers["X-E"] = nil
	},
	func(s *ogen.Spec) { s.Paths["/ref"] = nil },
	func(s *ogen.Spec) { s.Components = nil },
	func(s *ogen.Spec) { s.Components.Schemas["Thing"] = nil },
	func(s *ogen.Spec) { s.Components.Schemas["Err"] = nil },
	func(s *ogen.Spec) { s.Components.Schemas["Thing"].Properties[0].Schema = nil },
	func(s *ogen.Spec) { s.Components.Schemas["Thing"].Properties[3].Schema.Items = nil },
	func(s *ogen.Spec) { s.Components.Schemas["Thing"].Properties[3].Schema.Items.Item = nil },
	func(s *ogen.Spec) { s.Components.Schemas["Thing"].Properties[5].Schema.OneOf[0] = nil },
	func(s *ogen.Spec) { s.Components.Schemas["Thing"].Properties[6].Schema.AllOf[1] = nil },
	func(s *ogen.Spec) { s.Components.Schemas["Thing"].Properties[7].Schema.AdditionalProperties = nil },
	func(s *ogen.Spec) { s.Components.Schemas["Thing"].Properties[2].Schema.Enum = ogen.Enum{nil} },
	func(s *ogen.Spec) { s.Components.Schemas["Thing"].Properties[2].Schema.Enum = ogen.Enum{} },
	func(s *ogen.Spec) { s.Components.Responses["R"] = nil },
	func(s *ogen.Spec) { s.Components.Parameters["Q"] = nil },
	func(s *ogen.Spec) { s.Components.Parameters["Q"].Schema = nil },
	func(s *ogen.Spec) { s.Components.Examples["E"] = nil },
	func(s *ogen.Spec) { s.Components.RequestBodies["B"] = nil },
	func(s *ogen.Spec) { s.Components.RequestBodies["B"].Content = nil },
	func(s *ogen.Spec) { s.Components.Headers["H"] = nil },
	func(s *ogen.Spec) { s.Components.Headers["H"].Schema = nil },
	func(s *ogen.Spec) { s.Components.SecuritySchemes["key"] = nil },
	func(s *ogen.Spec) { s.Components.SecuritySchemes["bearer"] = nil },
	func(s *ogen.Spec) { s.Components.SecuritySchemes["o"].Flows = nil },
	func(s *ogen.Spec) { s.Components.SecuritySchemes["o"].Flows.Implicit = nil },
	func(s *ogen.Spec) { s.Components.SecuritySchemes["o"].Flows.Implicit.Scopes = nil },
	func(s *ogen.Spec) { s.Components.Links["L"] = nil },
	func(s *ogen.Spec) { s.Components.PathItems["P"] = nil },
	func(s *ogen.Spec) { s.Components.PathItems["P"].Get.Responses = nil },
	func(s *ogen.Spec) { s.Servers[0].Variables = nil },
	func(s *ogen.Spec) { s.Security = ogen.SecurityRequirements{nil} },
	func(s *ogen.Spec) { s.Paths = nil },
	func(s *ogen.Spec) { s.Paths["/things/{id}"].Get.Callbacks = map[string]*ogen.Callback{"cb": nil} },
	func(s *ogen.Spec) { s.Webhooks = map[string]*ogen.PathItem{"w": nil} },
	// cyclic schemas used where the parser walks oneOf/anyOf/allOf itself (parameter style check)
	func(s *ogen.Spec) {
		s.Components.Schemas["Rec"] = &ogen.Schema{OneOf: []*ogen.Schema{{Ref: "#/components/schemas/Rec"}, {Type: "string"}}}
		s.Paths["/things/{id}"].Get.Parameters[1].Schema = &ogen.Schema{Ref: "#/components/schemas/Rec"}
	},
	func(s *ogen.Spec) {
		s.Components.Schemas["RecA"] = &ogen.Schema{AnyOf: []*ogen.Schema{{Type: "integer"}, {Ref: "#/components/schemas/RecB"}}}
		s.Components.Schemas["RecB"] = &ogen.Schema{AllOf: []*ogen.Schema{{Ref: "#/components/schemas/RecA"}}}
		s.Components.Headers["H"].Schema = &ogen.Schema{Ref: "#/components/schemas/RecB"}
	},
	func(s *ogen.Spec) {
		s.Components.Schemas["Thing"].Properties[4].Schema = &ogen.Schema{OneOf: []*ogen.Schema{{Ref: "#/components/schemas/Thing"}, {Type: "string"}}}
	},
}

func ZZNumFaults() int { return len(zzFaults) }

func zzParse(s *ogen.Spec) error {
	api, err := Parse(s, Settings{}) // a panic reaching the harness is the violation
	if err != nil {
		zz.Cover("spec-refused")
	} else {
		zz.Cover("spec-accepted")
		_ = api
	}
	return err
}

// HSpecFault: the k-th block of ten faults; the fault inside the block is a symbolic selector.
func HSpecFault(block int) {
	lo := block * 10
	hi := lo + 9
	if hi >= len(zzFaults) {
		hi = len(zzFaults) - 1
	}
	if lo > hi {
		return
	}
	k := zz.IntRange(lo, hi)
	s := zzBaseSpec()
	zzFaults[k](s)
	err := zzParse(s)
	if k == 0 {
		// reachability witness: the undamaged skeleton goes through the whole parser
		zz.Assert(err == nil, "the undamaged spec skeleton is accepted by parser.Parse")
	}
}

var zzKeywords = map[int][]string{
	0:  {"2XX", "200", "default", "1XX", "5xx"},
	1:  {"path", "query", "header", "cookie"},
	2:  {"form", "label", "matrix", "simple", "deepObject", "pipeDelimited", "spaceDelimited"},
	4:  {"null", "array", "string", "object", "number", "integer", "boolean"},
	5:  {"int32", "int64", "date", "uuid", "byte", "binary", "email", "ipv4", "date-time", "uri", "float", "double", "password", "hostname", "duration", "unix", "int8", "uint"},
	8:  {"http", "apiKey", "oauth2", "openIdConnect", "mutualTLS"},
	9:  {"query", "header", "cookie"},
	10: {"basic", "bearer", "digest"},
}

// HSpecScalar: n < 10: the field is an arbitrary string of n bytes; n >= 10: the field is the (n-10)-th
// keyword of its vocabulary with its last two bytes arbitrary (so the keyword itself and its near misses
// are inside).
func HSpecScalar(field, n int) {
	s := zzBaseSpec()
	var v string
	if n >= 10 {
		kw := zzKeywords[field][n-10]
		v = kw[:len(kw)-2] + zz.String(2)
	} else {
		v = zz.String(n)
	}
	get := s.Paths["/things/{id}"].Get
	switch field {
	case 0: // response status key
		get.Responses[v] = &ogen.Response{Description: "x"}
	case 1: // parameter location
		get.Parameters[1].In = v
	case 2: // parameter style
		get.Parameters[1].Style = v
	case 3: // media type key
		get.Responses["default"].Content[v] = ogen.Media{Schema: &ogen.Schema{Type: "string"}}
	case 4: // schema type
		s.Components.Schemas["Err"].Properties[0].Schema.Type = v
	case 5: // schema format
		s.Components.Schemas["Thing"].Properties[1].Schema.Format = v
	case 6: // local reference tail
		get.Responses["4XX"].Ref = "#/components/responses/" + v
	case 7: // whole reference text
		// "#" alone resolves to the document node and is handed to the YAML decoder (reflection): outside
		zz.Assume(zz.Not(zz.EqString(v, "#")))
		get.Parameters[0].Ref = v
	case 8: // security scheme type
		s.Components.SecuritySchemes["key"].Type = v
	case 9: // apiKey location
		s.Components.SecuritySchemes["key"].In = v
	case 10: // http scheme
		s.Components.SecuritySchemes["bearer"].Scheme = v
	case 11: // security requirement name
		s.Paths["/things/{id}"].Put.Security = ogen.SecurityRequirements{{v: []string{}}}
	case 12: // numeric keyword text
		s.Components.Schemas["Thing"].Properties[1].Schema.Maximum = ogen.Num(v)
	case 13: // default value text
		s.Components.Schemas["Thing"].Properties[1].Schema.Default = ogen.Default(v)
	case 14: // enum value text
		s.Components.Schemas["Thing"].Properties[2].Schema.Enum = ogen.Enum{json.RawMessage(`"a"`), json.RawMessage(v)}
	case 15: // required member name
		s.Components.Schemas["Thing"].Required = []string{"name", v}
	case 16: // server URL
		s.Servers[0].URL = v
	case 17: // operation id
		get.OperationID = v
	case 18: // encoding property name / content type
		m := s.Paths["/things/{id}"].Post.RequestBody.Content["multipart/form-data"]
		m.Encoding = map[string]ogen.Encoding{v: {ContentType: v}}
		s.Paths["/things/{id}"].Post.RequestBody.Content["multipart/form-data"] = m
	case 19: // openapi version text
		s.OpenAPI = v
	case 20: // header name
		get.Responses["200"].Headers[v] = &ogen.Header{Schema: &ogen.Schema{Type: "string"}}
	case 21: // parameter name
		get.Parameters[1].Name = v
	}
	zzParse(s)
}
