package parser

// C11 kernels: totality (no panic, termination) of the path-key handling the parser applies to
// hostile spec path keys.

import (
	zz "github.com/ogen-go/ogen/internal/zzverif"
	"github.com/ogen-go/ogen/openapi"
	"github.com/ogen-go/ogen/jsonschema"
)

var ZZEntries = map[string]func([]int){
	"HPathID":    func(a []int) { HPathID(a[0], a[1]) },
	"HParsePath": func(a []int) { HParsePath(a[0], a[1]) },
	"HSpecFault":  func(a []int) { HSpecFault(a[0]) },
	"HSpecScalar": func(a []int) { HSpecScalar(a[0], a[1]) },
}

func key(n, slash int) string {
	if slash != 0 {
		return "/" + zz.String(n)
	}
	return zz.String(n)
}

func HPathID(n, slash int) {
	k := key(n, slash)
	id, err := pathID(k) // a panic reaching the harness is the violation
	if err == nil {
		zz.Cover("pathid-ok")
		id2, err2 := pathID(k)
		zz.Assert(zz.And(err2 == nil, zz.EqString(id, id2)), "pathID is a function of the path key")
	} else {
		zz.Cover("pathid-refused")
	}
}

func HParsePath(n, slash int) {
	k := key(n, slash)
	params := []*openapi.Parameter{{Name: "x", In: openapi.LocationPath, Required: true, Schema: &jsonschema.Schema{Type: jsonschema.String}}}
	_, err := parsePath(k, params) // a panic reaching the harness is the violation
	if err != nil {
		zz.Cover("parsepath-refused")
	} else {
		zz.Cover("parsepath-ok")
	}
}
