package jsonpointer

// C11: totality of jsonpointer.Resolve, which every $ref of a document goes through: no panic, whatever the
// pointer text (the agreement with RFC 6901 is C16's subject, not repeated here).

import (
	"github.com/go-faster/yaml"

	zz "github.com/ogen-go/ogen/internal/zzverif"
)

var ZZEntries = map[string]func([]int){
	"HPtrTotal":  func(a []int) { HPtrTotal(a[0], a[1]) },
	"HIdxTotal":  func(a []int) { HIdxTotal(a[0], a[1]) },
}

func zzScalar(v string) *yaml.Node { return &yaml.Node{Kind: yaml.ScalarNode, Value: v} }

func zzDoc() *yaml.Node {
	var e []*yaml.Node
	for i := 0; i < 11; i++ {
		e = append(e, zzScalar("e"))
	}
	seq := &yaml.Node{Kind: yaml.SequenceNode, Content: e}
	m := &yaml.Node{Kind: yaml.MappingNode, Content: []*yaml.Node{zzScalar("arr"), seq, zzScalar(""), zzScalar("empty"), zzScalar("a/b"), zzScalar("x"), zzScalar("m~n"), zzScalar("y")}}
	return &yaml.Node{Kind: yaml.DocumentNode, Content: []*yaml.Node{m}}
}

// HPtrTotal: an arbitrary pointer of n bytes, alone (base 0) or appended to "/arr/" (base 1).
func HPtrTotal(n, base int) {
	p := zz.String(n)
	if base == 1 {
		p = "/arr/" + p
	}
	_, err := Resolve(p, zzDoc()) // a panic reaching the harness is the violation
	if err != nil {
		zz.Cover("pointer-refused")
	} else {
		zz.Cover("pointer-resolved")
	}
}

// HIdxTotal: an index token of n arbitrary decimal digits applied to the 11-element sequence.
func HIdxTotal(n, frag int) {
	d := zz.String(n)
	for i := 0; i < n; i++ {
		zz.Assume(zz.And(d[i] >= '0', d[i] <= '9'))
	}
	p := "/arr/" + d
	if frag == 1 {
		p = "#" + p
	}
	_, _ = Resolve(p, zzDoc())
	zz.Cover("index-pointer-ran")
}
