#!/usr/bin/env python3
"""C11 side-condition driver (concrete, NOT solver-decided): a valid document that uses most features is
damaged at every node in turn (null, empty container, retyped scalar) and sent through the WHOLE pipeline
(ogen.Parse -> gen.NewGenerator -> WriteSource) by the tree's generator; it must return a diagnostic or write a
package that builds - a panic is a violation."""
import json, copy, sys
BASE = {
 "openapi": "3.0.3",
 "info": {"title": "t", "version": "1"},
 "servers": [{"url": "https://{h}/v1", "variables": {"h": {"default": "x", "enum": ["x", "y"]}}}],
 "security": [{"key": []}],
 "paths": {
  "/things/{id}": {
   "parameters": [{"name": "id", "in": "path", "required": True, "schema": {"type": "integer"}}],
   "get": {
    "operationId": "getThing",
    "parameters": [{"$ref": "#/components/parameters/Q"},
                   {"name": "h", "in": "header", "schema": {"type": "array", "items": {"type": "string"}}, "examples": {"e": {"$ref": "#/components/examples/E"}}},
                   {"name": "c", "in": "cookie", "content": {"application/json": {"schema": {"type": "string"}}}}],
    "responses": {
     "200": {"description": "ok", "headers": {"X-A": {"schema": {"type": "integer"}}, "X-B": {"$ref": "#/components/headers/H"}},
             "content": {"application/json": {"schema": {"$ref": "#/components/schemas/Thing"}, "examples": {"one": {"value": {"name": "n"}}}}},
             "links": {"l": {"operationId": "putThing"}}},
     "4XX": {"$ref": "#/components/responses/R"},
     "default": {"description": "d", "content": {"application/json": {"schema": {"$ref": "#/components/schemas/Err"}}}}}},
   "put": {"operationId": "putThing", "security": [{"bearer": []}, {}], "requestBody": {"$ref": "#/components/requestBodies/B"}, "responses": {"204": {"description": "done"}}},
   "post": {"operationId": "postThing",
            "requestBody": {"required": True, "content": {"multipart/form-data": {"schema": {"type": "object", "properties": {"f": {"type": "string", "format": "binary"}, "o": {"type": "string"}}},
                                                                                   "encoding": {"o": {"style": "form"}}},
                                                          "application/x-www-form-urlencoded": {"schema": {"type": "object", "properties": {"a": {"type": "integer"}}}}}},
            "responses": {"201": {"description": "created"}}}}},
 "components": {
  "schemas": {
   "Thing": {"type": "object", "required": ["name"], "properties": {
      "name": {"type": "string", "minLength": 1, "maxLength": 9, "pattern": "^[a-z]+$"},
      "size": {"type": "integer", "format": "int32", "minimum": 0, "maximum": 10, "default": 1},
      "kind": {"type": "string", "enum": ["a", "b"]},
      "parts": {"type": "array", "items": {"type": "string"}, "minItems": 1, "uniqueItems": True},
      "sub": {"$ref": "#/components/schemas/Thing"},
      "any": {"oneOf": [{"type": "string"}, {"type": "integer"}]},
      "all": {"allOf": [{"$ref": "#/components/schemas/Err"}, {"type": "object", "properties": {"x": {"type": "boolean"}}}]},
      "map": {"type": "object", "additionalProperties": {"type": "string"}},
      "sum": {"oneOf": [{"$ref": "#/components/schemas/Err"}, {"$ref": "#/components/schemas/Other"}], "discriminator": {"propertyName": "k", "mapping": {"e": "#/components/schemas/Err", "o": "#/components/schemas/Other"}}},
      "when": {"type": "string", "format": "date-time"}, "ratio": {"type": "number", "multipleOf": 0.5}}},
   "Err": {"type": "object", "required": ["m", "k"], "properties": {"m": {"type": "string"}, "k": {"type": "string"}}},
   "Other": {"type": "object", "required": ["k"], "properties": {"k": {"type": "string"}, "n": {"type": "integer", "nullable": True}}}},
  "responses": {"R": {"description": "r", "content": {"application/json": {"schema": {"$ref": "#/components/schemas/Err"}}}}},
  "parameters": {"Q": {"name": "q", "in": "query", "schema": {"type": "object", "properties": {"a": {"type": "string"}}}, "style": "deepObject", "explode": True}},
  "examples": {"E": {"value": "v"}},
  "requestBodies": {"B": {"content": {"application/json": {"schema": {"$ref": "#/components/schemas/Thing"}}, "text/plain": {"schema": {"type": "string"}}}}},
  "headers": {"H": {"schema": {"type": "string"}}},
  "securitySchemes": {"key": {"type": "apiKey", "in": "header", "name": "X-Key"}, "bearer": {"type": "http", "scheme": "bearer"}}}}

BASE2 = {
 "openapi": "3.1.0",
 "info": {"title": "t2", "version": "2", "description": "d", "license": {"name": "MIT"}, "contact": {"name": "n", "email": "e@x"}},
 "tags": [{"name": "things", "description": "d"}],
 "externalDocs": {"url": "https://x"},
 "paths": {
  "/items": {
   "get": {"operationId": "listItems", "tags": ["things"], "deprecated": True, "summary": "s", "description": "d",
           "parameters": [{"name": "f", "in": "query", "style": "form", "explode": False, "schema": {"type": "array", "items": {"type": "integer", "enum": [1, 2]}}},
                          {"name": "p", "in": "query", "style": "pipeDelimited", "schema": {"type": "array", "items": {"type": "string"}}},
                          {"name": "d", "in": "query", "schema": {"type": "string", "format": "date", "default": "2020-01-02"}},
                          {"name": "X-N", "in": "header", "required": True, "schema": {"type": "number", "format": "float", "minimum": 0.5, "exclusiveMaximum": True, "maximum": 9.5}},
                          {"name": "ck", "in": "cookie", "schema": {"type": "boolean", "default": True}}],
           "responses": {"200": {"description": "ok", "content": {"application/json": {"schema": {"type": "array", "items": {"$ref": "#/components/schemas/Item"}}},
                                                               "application/octet-stream": {"schema": {"type": "string", "format": "binary"}},
                                                               "text/plain": {"schema": {"type": "string"}}}},
                         "2XX": {"description": "other ok"},
                         "default": {"$ref": "#/components/responses/Err"}}},
   "post": {"operationId": "createItem", "requestBody": {"required": False, "content": {"application/json": {"schema": {"$ref": "#/components/schemas/Item"}},
                                                                                           "application/octet-stream": {"schema": {"type": "string", "format": "binary"}}}},
            "callbacks": {"onEvent": {"{$request.body#/url}": {"post": {"requestBody": {"content": {"application/json": {"schema": {"type": "string"}}}}, "responses": {"200": {"description": "ok"}}}}}},
            "responses": {"201": {"description": "created", "headers": {"Location": {"schema": {"type": "string", "format": "uri"}}}},
                          "default": {"$ref": "#/components/responses/Err"}}}},
  "/ref": {"$ref": "#/components/pathItems/P"}},
 "webhooks": {"itemChanged": {"post": {"operationId": "itemChanged", "requestBody": {"required": True, "content": {"application/json": {"schema": {"$ref": "#/components/schemas/Item"}}}}, "responses": {"200": {"description": "ok"}}}}},
 "components": {
  "pathItems": {"P": {"get": {"operationId": "getRef", "responses": {"200": {"description": "ok"}}}}},
  "responses": {"Err": {"description": "e", "content": {"application/json": {"schema": {"$ref": "#/components/schemas/Error"}}}}},
  "securitySchemes": {"o": {"type": "oauth2", "flows": {"implicit": {"authorizationUrl": "https://a", "scopes": {"r": "read", "w": "write"}}, "clientCredentials": {"tokenUrl": "https://t", "scopes": {}}}},
                      "basic": {"type": "http", "scheme": "basic"}, "ck": {"type": "apiKey", "in": "cookie", "name": "sid"}},
  "schemas": {
   "Item": {"type": "object", "required": ["id", "kind"], "additionalProperties": False, "properties": {
      "id": {"type": "string", "format": "uuid"}, "kind": {"type": "string", "enum": ["a", "b", None], "nullable": True},
      "n8": {"type": "integer", "format": "int8"}, "u": {"type": "integer", "format": "uint32", "multipleOf": 4}, "big": {"type": "integer", "format": "int64", "exclusiveMinimum": True, "minimum": -5},
      "f": {"type": "number", "format": "double", "default": 1.5}, "s64": {"type": "string", "format": "int64"}, "ip": {"type": "string", "format": "ipv4"}, "mail": {"type": "string", "format": "email", "maxLength": 50},
      "ts": {"type": "integer", "format": "unix-milli"}, "dur": {"type": "string", "format": "duration"}, "bin": {"type": "string", "format": "byte"},
      "tags": {"type": "array", "items": {"type": "string", "minLength": 1}, "maxItems": 5},
      "meta": {"type": "object", "patternProperties": {"^x-": {"type": "string"}}},
      "nested": {"type": "object", "properties": {"deep": {"type": "object", "properties": {"leaf": {"type": "array", "items": {"type": "array", "items": {"type": "integer"}}}}}}},
      "pet": {"oneOf": [{"$ref": "#/components/schemas/Cat"}, {"$ref": "#/components/schemas/Dog"}]}, "num": {"anyOf": [{"type": "integer"}, {"type": "number"}]},
      "one": {"oneOf": [{"type": "string"}, {"type": "array", "items": {"type": "string"}}, {"type": "boolean"}, {"type": "null"}]},
      "cst": {"const": "fixed"}, "free": {}, "anyobj": {"type": "object"}}},
   "Cat": {"type": "object", "required": ["meow"], "properties": {"meow": {"type": "boolean"}}},
   "Dog": {"type": "object", "required": ["bark"], "properties": {"bark": {"type": "integer"}}},
   "Error": {"type": "object", "required": ["code"], "properties": {"code": {"type": "integer"}, "cause": {"$ref": "#/components/schemas/Error"}}}}}}

def paths(node, prefix=()):
    out = []
    if isinstance(node, dict):
        for k, v in node.items():
            out.append(prefix + (k,))
            out += paths(v, prefix + (k,))
    elif isinstance(node, list):
        for i, v in enumerate(node):
            out.append(prefix + (i,))
            out += paths(v, prefix + (i,))
    return out

def mutate(doc, path, how):
    d = copy.deepcopy(doc)
    cur = d
    for k in path[:-1]:
        cur = cur[k]
    old = cur[path[-1]]
    if how == "null":
        cur[path[-1]] = None
    elif how == "empty":
        if isinstance(old, dict): cur[path[-1]] = {}
        elif isinstance(old, list): cur[path[-1]] = []
        elif isinstance(old, str): cur[path[-1]] = ""
        else: return None
    elif how == "retype":
        if isinstance(old, (dict, list)): cur[path[-1]] = "x"
        elif isinstance(old, str): cur[path[-1]] = {"x": 1}
        elif isinstance(old, bool): cur[path[-1]] = "yes"
        else: cur[path[-1]] = "7x"
    elif how == "delete":
        if isinstance(cur, dict): del cur[path[-1]]
        else: cur.pop(path[-1])
    return d

# faults whose outcome is a recorded C02 known finding (url-encoded form whose object schema has no properties:
# the written package has unused variables) - kept out of this matrix, the spec is in C02's build matrix
SKIP = {("paths//things/{id}/post/requestBody/content/application/x-www-form-urlencoded/schema/properties", "empty"),
        ("paths//things/{id}/post/requestBody/content/application/x-www-form-urlencoded/schema/properties", "delete"),
        ("paths//things/{id}/post/requestBody/content/application/x-www-form-urlencoded/schema/properties/a", "delete")}
# third document (added after a seed agent reported generator crashes on the unchanged tree): pattern properties next
# to declared properties, tuple-typed arrays (items as a list), nested sums
BASE3 = {"openapi": "3.0.3", "info": {"title": "t", "version": "1"}, "paths": {"/x": {"get": {"operationId": "getX", "responses": {"200": {"description": "ok", "content": {"application/json": {"schema": {
    "type": "object", "properties": {"a": {"type": "string"}, "t": {"type": "array", "items": [{"type": "string"}, {"type": "integer"}]},
                                     "u": {"oneOf": [{"type": "string"}, {"type": "array", "items": {"type": "integer"}}]}},
    "patternProperties": {"^b": {"type": "string"}, "^c": {"type": "integer"}}}}}}}}}}}
tier = sys.argv[1] if len(sys.argv) > 1 else "quick"
pkgs = [{"name": "base", "spec": json.dumps(BASE)}, {"name": "base2", "spec": json.dumps(BASE2)}, {"name": "base3", "spec": json.dumps(BASE3)}]
# two self-recursive components that share a property name, merged by allOf (a reference cycle behind a merge)
pkgs.append({"name": "allofrecmerge", "isolate": True, "spec": json.dumps({"openapi": "3.0.3", "info": {"title": "t", "version": "1"}, "paths": {"/x": {"get": {"responses": {"200": {"description": "ok", "content": {"application/json": {"schema": {"allOf": [{"$ref": "#/components/schemas/A"}, {"$ref": "#/components/schemas/B"}]}}}}}}}},
    "components": {"schemas": {"A": {"type": "object", "properties": {"next": {"$ref": "#/components/schemas/A"}}}, "B": {"type": "object", "properties": {"next": {"$ref": "#/components/schemas/B"}}}}}})})
# components that are arrays of themselves (nullable / referenced from an optional property / with a validator): each
# in a process of its own - unbounded recursion in a generator pass ends in a fatal error
def _selfarr(tree, root):
    return json.dumps({"openapi": "3.0.3", "info": {"title": "t", "version": "1"}, "paths": {"/x": {"get": {"responses": {"200": {"description": "ok", "content": {"application/json": {"schema": root}}}}}}},
                       "components": {"schemas": {"Tree": tree}}})
_T = {"$ref": "#/components/schemas/Tree"}
pkgs.append({"name": "selfarr_nullable", "isolate": True, "spec": _selfarr({"type": "array", "nullable": True, "items": _T}, _T)})
pkgs.append({"name": "selfarr_optional", "isolate": True, "spec": _selfarr({"type": "array", "items": _T}, {"type": "object", "properties": {"t": _T}})})
pkgs.append({"name": "selfarr_minitems", "isolate": True, "spec": _selfarr({"type": "array", "minItems": 0, "maxItems": 3, "items": _T}, {"type": "object", "required": ["t"], "properties": {"t": _T}})})
pkgs.append({"name": "selfarr_map", "isolate": True, "spec": _selfarr({"type": "object", "additionalProperties": {"type": "array", "items": _T}}, _T)})
hows = ["null", "empty", "retype", "delete"] if tier != "quick" else ["null", "retype"]
n = 0
nodes = 0
for tag, doc in (("f", BASE), ("g", BASE2), ("h", BASE3)):
    ps = paths(doc)
    nodes += len(ps)
    for i, p in enumerate(ps):
        for how in hows:
            d = mutate(doc, p, how)
            if d is None or ("/".join(str(x) for x in p), how) in SKIP:
                continue
            pkgs.append({"name": "%s%d_%s" % (tag, i, how), "spec": json.dumps(d), "meta": {"path": "/".join(str(x) for x in p), "how": how}})
            n += 1
print(json.dumps({"packages": pkgs, "cases": {"quick": [], "thorough": []},
                  "bounds": {"faults": "%d single-node faults (%s) at every node of three documents (%d nodes) that use parameters in every location, content-typed parameters, headers, links, examples, pattern/default responses, multipart and url-encoded forms with encoding, security, servers with variables, and schemas with pattern / enum / default / oneOf / anyOf / allOf / discriminator / additionalProperties / patternProperties / recursion / most formats / 3.1 type arrays, const, webhooks, callbacks, pathItems components, oauth2 flows" % (n, ", ".join(hows), nodes)}}))
