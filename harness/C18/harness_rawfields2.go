package jsonschema



// zzRawSchemaFields stands in, under the engine only, for jsonschema.getRawSchemaFields, which lists the
// JSON member names of a RawSchema by json.Marshal (reflection): the members json.Marshal would emit for
// the struct's `omitempty` tags, in declaration order. Natively the real function runs.
func zzRawSchemaFields(s *RawSchema) ([]string, error) {
	var f []string
	add := func(c bool, n string) {
		if c {
			f = append(f, n)
		}
	}
	add(s.Ref != "", "$ref")
	add(s.Summary != "", "summary")
	add(s.Description != "", "description")
	add(s.Type != "", "type")
	add(s.Format != "", "format")
	add(len(s.Properties) > 0, "properties")
	add(s.AdditionalProperties != nil, "additionalProperties")
	add(len(s.PatternProperties) > 0, "patternProperties")
	add(len(s.Required) > 0, "required")
	add(s.Items != nil, "items")
	add(s.Nullable, "nullable")
	add(len(s.AllOf) > 0, "allOf")
	add(len(s.OneOf) > 0, "oneOf")
	add(len(s.AnyOf) > 0, "anyOf")
	add(len(s.Enum) > 0, "enum")
	add(len(s.MultipleOf) > 0, "multipleOf")
	add(len(s.Maximum) > 0, "maximum")
	add(s.ExclusiveMaximum, "exclusiveMaximum")
	add(len(s.Minimum) > 0, "minimum")
	add(s.ExclusiveMinimum, "exclusiveMinimum")
	add(s.MaxLength != nil, "maxLength")
	add(s.MinLength != nil, "minLength")
	add(s.Pattern != "", "pattern")
	add(s.MaxItems != nil, "maxItems")
	add(s.MinItems != nil, "minItems")
	add(s.UniqueItems, "uniqueItems")
	add(s.MaxProperties != nil, "maxProperties")
	add(s.MinProperties != nil, "minProperties")
	add(len(s.Default) > 0, "default")
	add(s.Deprecated, "deprecated")
	add(s.ContentEncoding != "", "contentEncoding")
	add(s.ContentMediaType != "", "contentMediaType")
	add(s.Discriminator != nil, "discriminator")
	add(s.XML != nil, "xml")
	add(len(s.Example) > 0, "example")
	return f, nil
}

