#!/usr/bin/env python3
import json, os
N = 31
kind = {0:'null',1:'bool',2:'num',3:'num',4:'num',5:'str',6:'str',7:'str',8:'str',9:'str',10:'arr',11:'arr',12:'arr',13:'arr',14:'arr',15:'obj',16:'obj',17:'obj',18:'obj',19:'obj',20:'arr',21:'arr',22:'obj',23:'obj',24:'obj',25:'arr',26:'arr',27:'obj',28:'arr',29:'arr',30:'obj'}
rep = {'null':0,'bool':1,'num':2,'str':5,'arr':11,'obj':16}
pairs_q, pairs_t = [], []
for a in range(N):
    for b in range(N):
        if kind[a] == kind[b]:
            pairs_q.append([a, b, 0])
            if a == b: pairs_q.append([a, b, 2])
        elif a == rep[kind[a]] and b == rep[kind[b]]:
            pairs_q.append([a, b, 0])
        for ws in (0, 1, 2, 3):
            if 30 not in (a, b):  # the three-member template: the quick pair set (validated) is used in both tiers
                pairs_t.append([a, b, ws])
pairs_t += [p for p in pairs_q if 30 in p[:2]]
same = [(a,b,c) for a in range(N) for b in range(N) for c in range(N) if kind[a]==kind[b]==kind[c]]
triples_q = [list(x) for x in same if x[0] in (2,3,5,7,12,16,17) and x[1] in (2,4,5,8,12,16,17) and x[2] in (3,2,6,5,12,17,16)] + [[30,17,17]]
triples_t = [list(x) for x in same if 30 not in x] + [[30, 17, 17]]  # two or three three-member objects in one triple: > 50000 paths, not claimed
broken_q = [[t, p] for t in (0, 1, 3, 7, 8, 12, 13, 17, 23, 25, 29) for p in range(0, 12)]
broken_t = [[t, p] for t in range(N) for p in range(0, 20)]
spec = {
 "property": "C18", "level": "model_checking",
 "time_budget_s": {"quick": 900, "thorough": 5400},
 "units": [{"name": "equal", "pkg": "github.com/ogen-go/ogen/json", "dir": "json", "harness": ["harness_equal.go"],
   "cases": {"quick": [{"entry": "HPair", "args": pairs_q}, {"entry": "HTriple", "args": triples_q}, {"entry": "HBroken", "args": broken_q}],
             "thorough": [{"entry": "HPair", "args": pairs_t}, {"entry": "HTriple", "args": triples_t}, {"entry": "HBroken", "args": broken_t}]}},
  {"name": "enum", "pkg": "github.com/ogen-go/ogen/jsonschema", "dir": "jsonschema", "harness": ["harness_enum.go", "harness_rawfields2.go"],
   "stubs": {"github.com/ogen-go/ogen/jsonschema.getRawSchemaFields": "zzRawSchemaFields"},
   "cases": {"quick": [{"entry": "HEnumDup", "args": [[a, b, 0] for a in range(3) for b in range(3)] + [[a, b, 0] for a in (3, 4, 5) for b in (3, 4, 5)] + [[0, 1, 1], [3, 4, 1]]}],
             "thorough": [{"entry": "HEnumDup", "args": [[a, b, t] for t in (0, 1) for a in range(3) for b in range(3)] + [[a, b, t] for t in (0, 1) for a in (3, 4, 5) for b in (3, 4, 5)]}]}}],
 "bounds": {"templates": "31 value templates: null, bool, integers (d, dd, -d), strings (1-2 plain bytes, \\u00HL escape, two-character escapes, empty), arrays (empty, [d], [d,-d], [null], [string], nested, mixed), objects (empty, 1 member, 2 and 3 members with independent symbolic names - so reordered and duplicate names, also a repeated name around a distinct one, are inside -, nested array, null member, string member values in three spellings, object inside object), arrays containing objects incl. two sibling objects (one / two members each, names independent - so a member of one sibling may reappear in the other)",
            "leaves": "every digit, every printable-ASCII string/name byte, every hex spelling of the escape, every choice of whitespace byte (space, tab, LF, CR) at each gap are symbolic",
            "pairs": "quick: all same-kind template pairs plus one cross-kind representative pair per kind pair; thorough: all 31x31 pairs x 4 whitespace variants; triples of same-kind templates for transitivity (at most one three-member object per triple); single-byte corruption for totality"},
 "assumptions": ["sync.Pool (jx.GetDecoder) modelled as always allocating a fresh decoder", "strings restricted to printable ASCII (multi-byte UTF-8 is outside the bound)", "for texts in which two member names of one object coincide only order-independence of the verdict is demanded (RFC 8259 leaves their meaning open)", "malformed texts: totality only"],
 "enum_clause": "the REAL jsonschema (*Parser).Parse on a schema whose enum holds two or three members built from six shapes (d, dd, -d; one-byte string plain / \\u00HL / empty) with symbolic leaves and whitespace: refused as a duplicate exactly when two members denote the same value, accepted otherwise (getRawSchemaFields stubbed under the engine)",
 "out_of_claim": "every number spelling with '.', 'e' or 'E' (strconv.ParseFloat / big.Rat path) - so 1 vs 1.0 vs 1e0 and integers beyond 2^53 are NOT decided by this check; longer strings, deeper nesting, non-ASCII"
}
json.dump(spec, open(os.path.join(os.path.dirname(__file__), "check.json"), "w"), indent=0)
print(len(pairs_q), len(triples_q), len(broken_q), len(pairs_t), len(triples_t))
