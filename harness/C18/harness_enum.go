package jsonschema

// C18, second clause: "a schema is rejected for duplicate enum values exactly when two members are the same
// value". The REAL (*Parser).Parse (parse1's duplicate detection on top of json.Equal, then parseEnumValues /
// parseJSONValue) is executed on a schema whose enum holds two (three) JSON texts with symbolic leaves.
// jsonschema.getRawSchemaFields (json.Marshal by reflection) is stubbed under the engine (harness_rawfields2.go).

import (
	"encoding/json"

	"github.com/ogen-go/ogen/jsonpointer"
	"github.com/ogen-go/ogen/location"

	zz "github.com/ogen-go/ogen/internal/zzverif"
)

var ZZEntries = map[string]func([]int){
	"HEnumDup": func(a []int) { HEnumDup(a[0], a[1], a[2]) },
}

type zzVal struct {
	kind int // 0 integer, 1 string
	num  int64
	str  byte
}

func zzDigit(nonzero bool) int64 {
	c := zz.Byte()
	if nonzero {
		zz.Assume(zz.And(c >= '1', c <= '9'))
	} else {
		zz.Assume(zz.And(c >= '0', c <= '9'))
	}
	return int64(c - '0')
}

func zzWS(out []byte, on bool) []byte {
	if !on {
		return out
	}
	c := zz.Byte()
	zz.Assume(zz.Or(zz.Or(c == ' ', c == '\t'), zz.Or(c == '\n', c == '\r')))
	return append(out, c)
}

// zzText builds one enum member: shape 0: d, 1: dd, 2: -d (integers); 3: a one-byte string, 4: the same string
// spelled \u00HL, 5: "" (strings). ws: a symbolic whitespace byte before and after.
func zzText(shape int, ws bool) ([]byte, zzVal) {
	var out []byte
	out = zzWS(out, ws)
	var v zzVal
	switch shape {
	case 0:
		d := zzDigit(false)
		out = append(out, byte('0'+d))
		v = zzVal{num: d}
	case 1:
		hi, lo := zzDigit(true), zzDigit(false)
		out = append(out, byte('0'+hi), byte('0'+lo))
		v = zzVal{num: hi*10 + lo}
	case 2:
		d := zzDigit(true)
		out = append(out, '-', byte('0'+d))
		v = zzVal{num: -d}
	case 3:
		c := zz.Byte()
		zz.Assume(zz.And(zz.And(c >= 0x20, c < 0x7f), zz.And(c != '"', c != '\\')))
		out = append(out, '"', c, '"')
		v = zzVal{kind: 1, str: c}
	case 4:
		c := zz.Byte()
		zz.Assume(zz.And(c >= 0x20, c < 0x7f))
		hexd := "0123456789abcdef"
		out = append(out, '"', '\\', 'u', '0', '0', hexd[c>>4], hexd[c&15], '"')
		v = zzVal{kind: 1, str: c}
	default:
		out = append(out, '"', '"')
		v = zzVal{kind: 2}
	}
	out = zzWS(out, ws)
	return out, v
}

func zzSame(a, b zzVal) bool {
	if a.kind != b.kind {
		return false
	}
	switch a.kind {
	case 0:
		return a.num == b.num
	case 1:
		return a.str == b.str
	}
	return true
}

// HEnumDup: enum [a, b] (third != 0: [a, b, c] with c a fresh one-digit integer or one-byte string) of shapes sa, sb.
// The schema is refused with a duplicate report exactly when two members denote the same value.
func HEnumDup(sa, sb, third int) {
	a, va := zzText(sa, false)
	b, vb := zzText(sb, true)
	typ := "integer"
	if sa >= 3 {
		typ = "string"
	}
	enum := []json.RawMessage{a, b}
	dup := zzSame(va, vb)
	if third != 0 {
		cs := 0
		if sa >= 3 {
			cs = 3
		}
		c, vc := zzText(cs, false)
		enum = append(enum, c)
		dup = zz.Or(dup, zz.Or(zzSame(va, vc), zzSame(vb, vc)))
	}
	p := NewParser(Settings{})
	_, err := p.Parse(&RawSchema{Type: typ, Enum: enum}, jsonpointer.NewResolveCtx(nil, jsonpointer.DefaultDepthLimit))
	var me *location.MultiError
	isDup := false
	if err != nil {
		for e := err; e != nil; {
			if m, ok := e.(*location.MultiError); ok {
				me, isDup = m, true
				break
			}
			u, ok := e.(interface{ Unwrap() error })
			if !ok {
				break
			}
			e = u.Unwrap()
		}
	}
	_ = me
	zz.Cover("enum-parsed")
	if dup {
		zz.Cover("enum-duplicate")
	}
	zz.Assert(zz.Implies(dup, isDup), "an enum with two members that denote the same value is refused as a duplicate")
	zz.Assert(zz.Implies(zz.Not(dup), err == nil), "an enum whose members denote distinct values of the declared type is accepted")
}
