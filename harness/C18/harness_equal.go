package json

// C18 harness: json.Equal on pairs/triples of JSON texts built from value
// templates with symbolic leaves (digits, string bytes, escapes, member names,
// whitespace), against equality of the abstract values the templates denote.

import zz "github.com/ogen-go/ogen/internal/zzverif"

var ZZEntries = map[string]func([]int){
	"HPair":   func(a []int) { HPair(a[0], a[1], a[2]) },
	"HTriple": func(a []int) { HTriple(a[0], a[1], a[2]) },
	"HBroken": func(a []int) { HBroken(a[0], a[1]) },
}

const (
	kNull = iota
	kBool
	kNum
	kStr
	kArr
	kObj
)

// aval is the abstract JSON value a template denotes.
type aval struct {
	kind int
	b    bool
	num  int64
	str  []byte
	arr  []aval
	keys [][]byte
	vals []aval
}

type builder struct {
	out []byte
	ws  bool
	dup bool // some object of this text has two members with the same name
}

func (b *builder) lit(s string) { b.out = append(b.out, s...) }

// gap inserts one symbolic whitespace byte (space, \t, \n or \r) when the
// whitespace variant is selected.
func (b *builder) gap() {
	if !b.ws {
		return
	}
	c := zz.Byte()
	zz.Assume(zz.Or(zz.Or(c == ' ', c == '\t'), zz.Or(c == '\n', c == '\r')))
	b.out = append(b.out, c)
}

func (b *builder) digit(nonzero bool) int64 {
	c := zz.Byte()
	if nonzero {
		zz.Assume(zz.And(c >= '1', c <= '9'))
	} else {
		zz.Assume(zz.And(c >= '0', c <= '9'))
	}
	b.out = append(b.out, c)
	return int64(c - '0')
}

// plain string byte: printable ASCII except '"' and '\'
func (b *builder) plainByte() byte {
	c := zz.Byte()
	zz.Assume(zz.And(zz.And(c >= 0x20, c < 0x7f), zz.And(c != '"', c != '\\')))
	return c
}

func (b *builder) intTok(shape int) aval {
	switch shape {
	case 0: // d
		return aval{kind: kNum, num: b.digit(false)}
	case 1: // dd
		hi := b.digit(true)
		lo := b.digit(false)
		return aval{kind: kNum, num: hi*10 + lo}
	default: // -d
		b.lit("-")
		return aval{kind: kNum, num: -b.digit(false)}
	}
}

func hexDigitVal(c byte) byte {
	if c >= '0' && c <= '9' {
		return c - '0'
	}
	if c >= 'a' && c <= 'f' {
		return c - 'a' + 10
	}
	return c - 'A' + 10
}

func (b *builder) strTok(shape int) aval {
	b.lit(`"`)
	var content []byte
	switch shape {
	case 0: // one plain byte
		c := b.plainByte()
		b.out = append(b.out, c)
		content = []byte{c}
	case 1: // two plain bytes
		c1, c2 := b.plainByte(), b.plainByte()
		b.out = append(b.out, c1, c2)
		content = []byte{c1, c2}
	case 2: // \u00HL spelling of an ASCII character
		h, l := zz.Byte(), zz.Byte()
		zz.Assume(zz.And(h >= '2', h <= '7'))
		zz.Assume(zz.Or(zz.Or(zz.And(l >= '0', l <= '9'), zz.And(l >= 'a', l <= 'f')), zz.And(l >= 'A', l <= 'F')))
		b.lit(`\u00`)
		b.out = append(b.out, h, l)
		content = []byte{(h-'0')<<4 | hexDigitVal(l)}
	case 3: // two-character escape
		which := zz.IntRange(0, 7)
		esc := `"\/bfnrt`[which]
		dec := "\"\\/\b\f\n\r\t"[which]
		b.lit(`\`)
		b.out = append(b.out, esc)
		content = []byte{dec}
	default: // empty
	}
	b.lit(`"`)
	return aval{kind: kStr, str: content}
}

func (b *builder) key() []byte {
	b.lit(`"`)
	c := b.plainByte()
	b.out = append(b.out, c)
	b.lit(`"`)
	return []byte{c}
}

const nTemplates = 30

func (b *builder) value(t int) aval {
	switch t {
	case 0:
		b.lit("null")
		return aval{kind: kNull}
	case 1:
		v := zz.Bool()
		if v {
			b.lit("true")
		} else {
			b.lit("false")
		}
		return aval{kind: kBool, b: v}
	case 2, 3, 4:
		return b.intTok(t - 2)
	case 5, 6, 7, 8, 9:
		return b.strTok(t - 5)
	case 10:
		b.lit("[")
		b.gap()
		b.lit("]")
		return aval{kind: kArr}
	case 11:
		b.lit("[")
		b.gap()
		e := b.intTok(0)
		b.gap()
		b.lit("]")
		return aval{kind: kArr, arr: []aval{e}}
	case 12:
		b.lit("[")
		e1 := b.intTok(0)
		b.gap()
		b.lit(",")
		b.gap()
		e2 := b.intTok(2)
		b.lit("]")
		return aval{kind: kArr, arr: []aval{e1, e2}}
	case 13:
		b.lit("[")
		b.gap()
		b.lit("null")
		b.gap()
		b.lit("]")
		return aval{kind: kArr, arr: []aval{{kind: kNull}}}
	case 14:
		b.lit("[")
		e := b.strTok(0)
		b.lit("]")
		return aval{kind: kArr, arr: []aval{e}}
	case 15:
		b.lit("{")
		b.gap()
		b.lit("}")
		return aval{kind: kObj}
	case 16:
		b.lit("{")
		b.gap()
		k := b.key()
		b.gap()
		b.lit(":")
		b.gap()
		v := b.intTok(0)
		b.gap()
		b.lit("}")
		return aval{kind: kObj, keys: [][]byte{k}, vals: []aval{v}}
	case 17:
		b.lit("{")
		k1 := b.key()
		b.lit(":")
		v1 := b.intTok(0)
		b.gap()
		b.lit(",")
		b.gap()
		k2 := b.key()
		b.lit(":")
		v2 := b.intTok(0)
		b.lit("}")
		if k1[0] == k2[0] { // forks: duplicate member names are in scope
			b.dup = true
		}
		return aval{kind: kObj, keys: [][]byte{k1, k2}, vals: []aval{v1, v2}}
	case 18:
		b.lit("{")
		k := b.key()
		b.lit(":[")
		v := b.intTok(0)
		b.lit("]}")
		return aval{kind: kObj, keys: [][]byte{k}, vals: []aval{{kind: kArr, arr: []aval{v}}}}
	case 19:
		b.lit("{")
		k := b.key()
		b.lit(":")
		b.gap()
		b.lit("null")
		b.gap()
		b.lit("}")
		return aval{kind: kObj, keys: [][]byte{k}, vals: []aval{{kind: kNull}}}
	case 20:
		b.lit("[[")
		e := b.intTok(0)
		b.lit("],")
		b.gap()
		b.lit("[]]")
		return aval{kind: kArr, arr: []aval{{kind: kArr, arr: []aval{e}}, {kind: kArr}}}
	case 21:
		b.lit("[true,")
		b.gap()
		b.lit("null,")
		e := b.strTok(4)
		b.lit("]")
		return aval{kind: kArr, arr: []aval{{kind: kBool, b: true}, {kind: kNull}, e}}
	case 22, 23, 24: // string member value: plain byte, \u00HL spelling, two-character escape
		b.lit("{")
		k := b.key()
		b.lit(":")
		b.gap()
		v := b.strTok([]int{0, 2, 3}[t-22])
		b.lit("}")
		return aval{kind: kObj, keys: [][]byte{k}, vals: []aval{v}}
	case 25: // object inside an array
		b.lit("[{")
		k := b.key()
		b.lit(":")
		v := b.intTok(0)
		b.lit("}")
		b.gap()
		b.lit("]")
		return aval{kind: kArr, arr: []aval{{kind: kObj, keys: [][]byte{k}, vals: []aval{v}}}}
	case 26: // scalar, then object, then scalar inside an array
		b.lit("[")
		e1 := b.intTok(0)
		b.lit(",{")
		k := b.key()
		b.lit(":null},")
		b.gap()
		e3 := b.strTok(0)
		b.lit("]")
		return aval{kind: kArr, arr: []aval{e1, {kind: kObj, keys: [][]byte{k}, vals: []aval{{kind: kNull}}}, e3}}
	case 28: // two sibling objects inside an array, one member each
		b.lit("[{")
		k1 := b.key()
		b.lit(":")
		v1 := b.intTok(0)
		b.lit("},")
		b.gap()
		b.lit("{")
		k2 := b.key()
		b.lit(":")
		v2 := b.intTok(0)
		b.lit("}]")
		return aval{kind: kArr, arr: []aval{{kind: kObj, keys: [][]byte{k1}, vals: []aval{v1}}, {kind: kObj, keys: [][]byte{k2}, vals: []aval{v2}}}}
	case 29: // two sibling objects, the second with two members (one of them may repeat the first sibling's member)
		b.lit("[{")
		k1 := b.key()
		b.lit(":")
		v1 := b.intTok(0)
		b.lit("},{")
		k2 := b.key()
		b.lit(":")
		v2 := b.intTok(0)
		b.lit(",")
		k3 := b.key()
		b.lit(":")
		v3 := b.intTok(0)
		b.lit("}]")
		if k2[0] == k3[0] {
			b.dup = true
		}
		return aval{kind: kArr, arr: []aval{{kind: kObj, keys: [][]byte{k1}, vals: []aval{v1}}, {kind: kObj, keys: [][]byte{k2, k3}, vals: []aval{v2, v3}}}}
	case 30: // three members with independent names: a repeated name may stand before or after a distinct one
		b.lit("{")
		k1 := b.key()
		b.lit(":")
		v1 := b.intTok(0)
		b.lit(",")
		k2 := b.key()
		b.lit(":2") // the middle value is the literal 2 (keeps the path count of a triple in the thousands)
		v2 := aval{kind: kNum, num: 2}
		b.lit(",")
		b.gap()
		k3 := b.key()
		b.lit(":")
		v3 := b.intTok(0)
		b.lit("}")
		if k1[0] == k2[0] || k1[0] == k3[0] || k2[0] == k3[0] {
			b.dup = true
		}
		return aval{kind: kObj, keys: [][]byte{k1, k2, k3}, vals: []aval{v1, v2, v3}}
	default: // object inside an object
		b.lit("{")
		k := b.key()
		b.lit(":{")
		k2 := b.key()
		b.lit(":")
		v := b.intTok(0)
		b.lit("}}")
		return aval{kind: kObj, keys: [][]byte{k}, vals: []aval{{kind: kObj, keys: [][]byte{k2}, vals: []aval{v}}}}
	}
}

// avalEq: equality of abstract values (objects unordered; called only when no
// object has duplicate member names).
func avalEq(x, y aval) bool {
	if x.kind != y.kind {
		return false
	}
	switch x.kind {
	case kNull:
		return true
	case kBool:
		return x.b == y.b
	case kNum:
		return x.num == y.num
	case kStr:
		return zz.EqBytes(x.str, y.str)
	case kArr:
		if len(x.arr) != len(y.arr) {
			return false
		}
		eq := true
		for i := range x.arr {
			eq = zz.And(eq, avalEq(x.arr[i], y.arr[i]))
		}
		return eq
	default:
		if len(x.keys) != len(y.keys) {
			return false
		}
		// every member of x has an equal member in y (names are distinct, sizes equal)
		eq := true
		for i := range x.keys {
			found := false
			for j := range y.keys {
				found = zz.Or(found, zz.And(zz.EqBytes(x.keys[i], y.keys[j]), avalEq(x.vals[i], y.vals[j])))
			}
			eq = zz.And(eq, found)
		}
		return eq
	}
}

func build(t int, ws bool) ([]byte, aval, bool) {
	b := &builder{ws: ws}
	if ws {
		b.gap()
	}
	v := b.value(t)
	if ws {
		b.gap()
	}
	return b.out, v, b.dup
}

func HPair(ta, tb, ws int) {
	a, va, dupA := build(ta, ws&1 != 0)
	b, vb, dupB := build(tb, ws&2 != 0)
	dup := dupA || dupB
	zz.Known("C18/duplicate-member-names", dup)
	ab, err1 := Equal(a, b)
	ba, err2 := Equal(b, a)
	aa, err3 := Equal(a, a)
	zz.Assert(zz.And(err1 == nil, err2 == nil), "well-formed texts compare without error")
	zz.Assert(zz.And(err3 == nil, aa), "Equal is reflexive")
	zz.Assert(ab == ba, "Equal is symmetric")
	if dup {
		zz.Cover("duplicate-member-names")
		return
	}
	want := avalEq(va, vb)
	zz.Assert(ab == want, "Equal holds exactly when the two texts denote the same JSON value")
	if ta == tb {
		zz.Cover("same-template-pair")
	}
}

func HTriple(ta, tb, tc int) {
	a, _, dupA := build(ta, false)
	b, _, dupB := build(tb, true)
	c, _, dupC := build(tc, false)
	zz.Known("C18/duplicate-member-names", dupA || dupB || dupC)
	ab, err1 := Equal(a, b)
	bc, err2 := Equal(b, c)
	ac, err3 := Equal(a, c)
	zz.Assert(zz.And(zz.And(err1 == nil, err2 == nil), err3 == nil), "well-formed texts compare without error (triple)")
	zz.Assert(zz.Implies(zz.And(ab, bc), ac), "Equal is transitive")
	zz.Cover("triple-compared")
}

// HBroken: one byte of a well-formed text is overwritten by an arbitrary byte;
// only totality is claimed (no panic).
func HBroken(t, pos int) {
	a, _, _ := build(t, false)
	b, _, _ := build(t, false)
	if pos >= len(a) {
		return
	}
	c := zz.Byte()
	// number spellings with a fraction or exponent go through strconv.ParseFloat / big.Rat: outside this check
	zz.Assume(zz.And(zz.And(c != '.', c != 'e'), c != 'E'))
	a[pos] = c
	_, _ = Equal(a, b)
	_, _ = Equal(b, a)
	zz.Cover("malformed-text-compared")
}
