package json

// C13 harness (JSON side, second file): the number-form unix timestamps split into two halves that meet at the
// decimal text (each half closes at full width where the composition does not), and the time.Format / time.Parse
// based formats (date, time, date-time) with a symbolic instant.

import (
	"strconv"
	"time"

	"github.com/go-faster/jx"

	zz "github.com/ogen-go/ogen/internal/zzverif"
)

func unixOf(unit int, v int64) time.Time {
	switch unit {
	case 0:
		return time.Unix(v, 0)
	case 1:
		return time.UnixMilli(v)
	case 2:
		return time.UnixMicro(v)
	}
	return time.Unix(0, v)
}

// HJUnixDec: the DECODING half of the JSON number form. The text is '-'? followed by d arbitrary digits (no leading
// zero); its value n is computed here by Horner's rule. Decode<Unit>(text) must succeed and give exactly the
// instant n units after the epoch (time.Unix / UnixMilli / UnixMicro are the reference constructors).
func HJUnixDec(unit, d, neg int) {
	buf := make([]byte, 0, 24)
	if neg != 0 {
		buf = append(buf, '-')
	}
	var n uint64
	for i := 0; i < d; i++ {
		c := zz.Byte()
		zz.Assume(zz.And(c >= '0', c <= '9'))
		if i == 0 && (d > 1 || neg != 0) {
			zz.Assume(c != '0')
		}
		buf = append(buf, c)
		n = n*10 + uint64(c-'0')
	}
	if d == 19 {
		zz.Assume(n <= 9223372036854775807)
	}
	v := int64(n)
	if neg != 0 {
		v = -v
	}
	var (
		back time.Time
		err  error
	)
	switch unit {
	case 0:
		back, err = DecodeUnixSeconds(jx.DecodeBytes(buf))
	case 1:
		back, err = DecodeUnixMilli(jx.DecodeBytes(buf))
	case 2:
		back, err = DecodeUnixMicro(jx.DecodeBytes(buf))
	default:
		back, err = DecodeUnixNano(jx.DecodeBytes(buf))
	}
	zz.Cover("unix-number-decoded")
	zz.Assert(err == nil, "a canonical decimal in the int64 range decodes as a unix timestamp")
	zz.Assert(back == unixOf(unit, v), "the decoded instant is exactly the number of units the text denotes")
}

// HJUnixEnc: the ENCODING half, itself in two steps. For every int64 v of the digit class and t = the instant v
// units after the epoch: (1) t.Unix() / UnixMilli() / UnixMicro() / UnixNano() gives back v (package time's own
// identity, full width); (2) Encode<Unit>(t) writes exactly the bytes jx writes for that unit count - on the
// unchanged tree both sides are the same computation, a changed encoder (another accessor, a division, a
// narrowing conversion) makes them differ and the solver finds the value. That jx's number writer produces the
// canonical decimal text is HJNumText.
func HJUnixEnc(unit, d, neg int) {
	v := zz.Int64()
	zz.Assume((v < 0) == (neg != 0))
	assumeDigits(mag64(v), d)
	t := unixOf(unit, v)
	e := &jx.Encoder{}
	var u int64
	switch unit {
	case 0:
		EncodeUnixSeconds(e, t)
		u = t.Unix()
	case 1:
		EncodeUnixMilli(e, t)
		u = t.UnixMilli()
	case 2:
		EncodeUnixMicro(e, t)
		u = t.UnixMicro()
	default:
		EncodeUnixNano(e, t)
		u = t.UnixNano()
	}
	zz.Cover("unix-number-encoded")
	zz.Assert(u == v, "the unit count of the instant v units after the epoch is v")
	ref := &jx.Encoder{}
	ref.Int64(u)
	zz.Assert(zz.EqBytes(e.Bytes(), ref.Bytes()), "the JSON number written for a unix timestamp is the JSON number of its unit count")
}

// HJNumText: jx's number writer (Encoder.Int64, the packed three-digit table) writes exactly the canonical decimal
// text of v (strconv.AppendInt is the reference for "the decimal text of v").
func HJNumText(d, neg int) {
	v := zz.Int64()
	zz.Assume((v < 0) == (neg != 0))
	assumeDigits(mag64(v), d)
	e := &jx.Encoder{}
	e.Int64(v)
	want := strconv.AppendInt(nil, v, 10)
	zz.Cover("number-text")
	zz.Assert(zz.EqBytes(e.Bytes(), want), "the JSON number written for an int64 is its decimal text")
}

func digit(c byte) bool { return zz.And(c >= '0', c <= '9') }

// yearBounds: the seconds [lo, hi) of the years ylo..yhi (UTC). Go's calendar arithmetic works in 400- and
// 100-year cycles that start at years = 1 mod 400 / mod 100, so a class that stays inside one such century
// (100c+1 .. 100c+100) leaves the solver only the 4-year and 1-year steps.
func yearBounds(ylo, yhi int) (lo, hi int64) {
	return time.Date(ylo, 1, 1, 0, 0, 0, 0, time.UTC).Unix(), time.Date(yhi+1, 1, 1, 0, 0, 0, 0, time.UTC).Unix()
}

func dateTextOK(b []byte) bool {
	ok := zz.And(zz.And(b[0] == '"', b[5] == '-'), b[8] == '-')
	for _, i := range []int{1, 2, 3, 4, 6, 7, 9, 10} {
		ok = zz.And(ok, digit(b[i]))
	}
	return ok
}

// HJDate: every calendar day of the years ylo..yhi (format: date = midnight UTC) through EncodeDate -> DecodeDate.
func HJDate(ylo, yhi int) {
	lo, hi := yearBounds(ylo, yhi)
	k := zz.Int64() // day number since the epoch
	zz.Assume(zz.And(k >= lo/86400, k < hi/86400))
	sec := k * 86400
	t := time.Unix(sec, 0).UTC()
	e := &jx.Encoder{}
	EncodeDate(e, t)
	b := e.Bytes()
	zz.Cover("date-encoded")
	zz.Assert(len(b) == 12 && b[11] == '"', "a date of the years 0000..9999 is written as ten characters in quotes")
	zz.Assert(dateTextOK(b), "date text is \"YYYY-MM-DD\" with digits in the year, month and day fields")
	back, err := DecodeDate(jx.DecodeBytes(b))
	zz.Assert(err == nil, "the encoder's date text decodes")
	zz.Assert(zz.And(back.Unix() == sec, back.Nanosecond() == 0), "date round-trips through JSON to the same day")
}

// HJTime: every second of the day (format: time, "15:04:05"); hour, minute and second are what the format carries.
func HJTime() {
	s := zz.Int64()
	zz.Assume(zz.And(s >= 0, s < 86400))
	t := time.Unix(s, 0).UTC()
	e := &jx.Encoder{}
	EncodeTime(e, t)
	b := e.Bytes()
	zz.Cover("time-encoded")
	zz.Assert(len(b) == 10, "a time of day is written as eight characters in quotes")
	zz.Assert(zz.And(zz.And(b[0] == '"', b[9] == '"'), zz.And(b[3] == ':', b[6] == ':')), "time text is \"HH:MM:SS\"")
	back, err := DecodeTime(jx.DecodeBytes(b))
	zz.Assert(err == nil, "the encoder's time text decodes")
	zz.Assert(int64(back.Hour())*3600+int64(back.Minute())*60+int64(back.Second()) == s, "time of day round-trips through JSON")
}

// HJDateTime: every second of the years ylo..yhi (one day at either end left out), shown in UTC (offMin 0) or in a
// fixed zone offMin minutes east of UTC (a CONCRETE case parameter: a symbolic instant together with a symbolic
// offset does not finish under the solver cap). The text must carry Z or the offset as +hh:mm / -hh:mm, and the
// decoded value must be the same instant (format: date-time, RFC 3339, resolution one second) with the same offset.
func HJDateTime(ylo, yhi, offMin int) {
	lo, hi := yearBounds(ylo, yhi)
	sec := zz.Int64()
	zz.Assume(zz.And(sec >= lo+86400, sec < hi-86400))
	t := time.Unix(sec, 0).UTC()
	off := offMin * 60
	if offMin != 0 {
		t = t.In(time.FixedZone("", off))
	}
	e := &jx.Encoder{}
	EncodeDateTime(e, t)
	b := e.Bytes()
	zz.Cover("date-time-encoded")
	if offMin == 0 {
		zz.Assert(len(b) == 22 && b[20] == 'Z', "a UTC date-time is written as YYYY-MM-DDTHH:MM:SSZ")
	} else {
		a, sign := offMin, byte('+')
		if a < 0 {
			a, sign = -a, '-'
		}
		want := []byte{sign, '0' + byte(a/600), '0' + byte(a/60%10), ':', '0' + byte(a%60/10), '0' + byte(a%10), '"'}
		zz.Assert(len(b) == 27 && zz.EqBytes(b[20:], want), "a zoned date-time ends in its offset written as +hh:mm / -hh:mm")
	}
	zz.Assert(zz.And(zz.And(b[5] == '-', b[8] == '-'), zz.And(b[11] == 'T', zz.And(b[14] == ':', b[17] == ':'))), "date-time text has the RFC 3339 separators")
	back, err := DecodeDateTime(jx.DecodeBytes(b))
	zz.Assert(err == nil, "the encoder's date-time text decodes")
	zz.Assert(zz.And(back.Unix() == sec, back.Nanosecond() == 0), "date-time round-trips through JSON to the same instant")
	_, boff := back.Zone()
	zz.Assert(boff == off, "date-time keeps its UTC offset")
}

// ---- decoding halves over ALL texts of the format's shape (years 0000..9999 at once) ----

func num2(a, b byte) int { return int(a-'0')*10 + int(b-'0') }

func leap(y int) bool { return y%4 == 0 && (y%100 != 0 || y%400 == 0) }

// validDay: the harness's own calendar rule (independent of package time).
func validDay(y, m, d int) bool {
	if m < 1 || m > 12 || d < 1 {
		return false
	}
	switch m {
	case 4, 6, 9, 11:
		return d <= 30
	case 2:
		if leap(y) {
			return d <= 29
		}
		return d <= 28
	}
	return d <= 31
}

func symDigits(n int) []byte {
	b := make([]byte, n)
	for i := range b {
		b[i] = zz.Byte()
		zz.Assume(digit(b[i]))
	}
	return b
}

// HJDateDec: the text "YYYY-MM-DD" with eight arbitrary digits. DecodeDate must accept it whenever it names a
// day of the proleptic Gregorian calendar (harness rule validDay), and then return midnight UTC of that day
// (reference constructor: time.Date). Whether texts that are NOT valid are refused is not part of C13 (Go's
// RFC 3339 reader accepts the offset +24:60, for instance) and is not asserted.
func HJDateDec() {
	g := symDigits(8)
	y := num2(g[0], g[1])*100 + num2(g[2], g[3])
	m := num2(g[4], g[5])
	d := num2(g[6], g[7])
	txt := []byte{'"', g[0], g[1], g[2], g[3], '-', g[4], g[5], '-', g[6], g[7], '"'}
	back, err := DecodeDate(jx.DecodeBytes(txt))
	zz.Cover("date-decoded")
	valid := validDay(y, m, d)
	zz.Assert(zz.Implies(valid, err == nil), "DecodeDate accepts every YYYY-MM-DD that is a calendar day")
	if err == nil && valid {
		zz.Cover("date-decoded-ok")
		zz.Assert(back.Equal(time.Date(y, time.Month(m), d, 0, 0, 0, 0, time.UTC)), "DecodeDate returns midnight UTC of the day the text names")
	}
}

// HJDateTimeDec: "YYYY-MM-DDTHH:MM:SS" followed by Z (zone 0) or by +hh:mm / -hh:mm (zone 1 / 2) with arbitrary
// digits. DecodeDateTime must accept all the valid ones (calendar day, hour < 24, minute and second < 60,
// offset hour < 24 and minute < 60) and return the instant they denote.
func HJDateTimeDec(zone int) {
	g := symDigits(14)
	y := num2(g[0], g[1])*100 + num2(g[2], g[3])
	m := num2(g[4], g[5])
	d := num2(g[6], g[7])
	hh, mi, ss := num2(g[8], g[9]), num2(g[10], g[11]), num2(g[12], g[13])
	txt := []byte{'"', g[0], g[1], g[2], g[3], '-', g[4], g[5], '-', g[6], g[7], 'T', g[8], g[9], ':', g[10], g[11], ':', g[12], g[13]}
	valid := validDay(y, m, d) && hh < 24 && mi < 60 && ss < 60
	off := 0
	if zone == 0 {
		txt = append(txt, 'Z')
	} else {
		z := symDigits(4)
		oh, om := num2(z[0], z[1]), num2(z[2], z[3])
		valid = valid && oh < 24 && om < 60
		off = (oh*60 + om) * 60
		sign := byte('+')
		if zone == 2 {
			sign = '-'
			off = -off
		}
		txt = append(txt, sign, z[0], z[1], ':', z[2], z[3])
	}
	txt = append(txt, '"')
	back, err := DecodeDateTime(jx.DecodeBytes(txt))
	zz.Cover("date-time-decoded")
	zz.Assert(zz.Implies(valid, err == nil), "DecodeDateTime accepts every RFC 3339 date-time whose fields are in range")
	if err == nil && valid {
		zz.Cover("date-time-decoded-ok")
		want := time.Date(y, time.Month(m), d, hh, mi, ss, 0, time.UTC).Unix() - int64(off)
		zz.Assert(zz.And(back.Unix() == want, back.Nanosecond() == 0), "DecodeDateTime returns the instant the text denotes")
		_, boff := back.Zone()
		zz.Assert(boff == off, "DecodeDateTime keeps the offset the text carries")
	}
}

// HJTimeDec: "HH:MM:SS" with arbitrary digits: accepted exactly when in range, and hour/minute/second are returned.
func HJTimeDec() {
	g := symDigits(6)
	hh, mi, ss := num2(g[0], g[1]), num2(g[2], g[3]), num2(g[4], g[5])
	txt := []byte{'"', g[0], g[1], ':', g[2], g[3], ':', g[4], g[5], '"'}
	back, err := DecodeTime(jx.DecodeBytes(txt))
	zz.Cover("time-decoded")
	valid := hh < 24 && mi < 60 && ss < 60
	zz.Assert(zz.Implies(valid, err == nil), "DecodeTime accepts every HH:MM:SS whose fields are in range")
	if err == nil && valid {
		zz.Assert(back.Hour() == hh && back.Minute() == mi && back.Second() == ss, "DecodeTime returns the time of day the text names")
	}
}
