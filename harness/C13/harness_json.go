package json

// C13 harness (JSON side): Encode*/Decode* pairs of package json through the
// real jx encoder/decoder, for every value of the type.

import (
	"net"
	"net/netip"
	"time"

	"github.com/go-faster/jx"
	"github.com/google/uuid"

	zz "github.com/ogen-go/ogen/internal/zzverif"
)

var ZZEntries = map[string]func([]int){
	"HJUnixDec":  func(a []int) { HJUnixDec(a[0], a[1], a[2]) },
	"HJUnixEnc":  func(a []int) { HJUnixEnc(a[0], a[1], a[2]) },
	"HJNumText":  func(a []int) { HJNumText(a[0], a[1]) },
	"HJDate":     func(a []int) { HJDate(a[0], a[1]) },
	"HJTime":     func(a []int) { HJTime() },
	"HJDateTime": func(a []int) { HJDateTime(a[0], a[1], a[2]) },
	"HJDateDec":     func(a []int) { HJDateDec() },
	"HJTimeDec":     func(a []int) { HJTimeDec() },
	"HJDateTimeDec": func(a []int) { HJDateTimeDec(a[0]) },
	"HJDuration": func(a []int) { HJDuration(a[0], a[1]) },
	"HJIPv6":     func(a []int) { HJIPv6(a[0]) },
	"HJInt8":   func(a []int) { HJInt8() },
	"HJUint8":  func(a []int) { HJUint8() },
	"HJInt16":  func(a []int) { HJInt16() },
	"HJUint16": func(a []int) { HJUint16() },
	"HJInt":    func(a []int) { HJInt(a[0], a[1], a[2]) },
	"HJUint":   func(a []int) { HJUint(a[0], a[1]) },
	"HJUUID":   func(a []int) { HJUUID() },
	"HJMAC":    func(a []int) { HJMAC(a[0]) },
	"HJIPv4":   func(a []int) { HJIPv4() },
	"HJUnix":   func(a []int) { HJUnix(a[0], a[1], a[2], a[3]) },
}

var pow10 = [20]uint64{1, 10, 100, 1000, 10000, 100000, 1000000, 10000000, 100000000, 1000000000, 10000000000, 100000000000,
	1000000000000, 10000000000000, 100000000000000, 1000000000000000, 10000000000000000, 100000000000000000, 1000000000000000000, 10000000000000000000}

func assumeDigits(m uint64, d int) {
	if d == 0 {
		return
	}
	if d == 1 {
		zz.Assume(m < 10)
		return
	}
	zz.Assume(m >= pow10[d-1])
	if d < 20 {
		zz.Assume(m < pow10[d])
	}
}

func mag64(v int64) uint64 {
	if v < 0 {
		return -uint64(v)
	}
	return uint64(v)
}

// quotedDecimal: "-?(0|[1-9][0-9]*)" in double quotes (quoted) or bare.
func decimalJSON(b []byte, quoted, signed bool) bool {
	if quoted {
		if len(b) < 3 || b[0] != '"' || b[len(b)-1] != '"' {
			return false
		}
		b = b[1 : len(b)-1]
	}
	if len(b) == 0 {
		return false
	}
	i := 0
	ok := true
	if b[0] == '-' {
		if !signed || len(b) == 1 {
			return false
		}
		i = 1
	}
	if len(b)-i > 1 {
		ok = zz.And(ok, b[i] != '0')
	}
	for ; i < len(b); i++ {
		ok = zz.And(ok, zz.And(b[i] >= '0', b[i] <= '9'))
	}
	return ok
}

func HJInt8()   { HJSmall(0) }
func HJUint8()  { HJSmall(1) }
func HJInt16()  { HJSmall16(2) }
func HJUint16() { HJSmall16(3) }

func HJSmall(kind int) {
	e := &jx.Encoder{}
	switch kind {
	case 0:
		v := zz.Int8()
		EncodeStringInt8(e, v)
		zz.Assert(decimalJSON(e.Bytes(), true, true), "string-int8 JSON is a quoted canonical decimal")
		b, err := DecodeStringInt8(jx.DecodeBytes(e.Bytes()))
		zz.Assert(err == nil, "string-int8 JSON decodes")
		zz.Assert(b == v, "string-int8 JSON round-trips")
	case 1:
		v := zz.Uint8()
		EncodeStringUint8(e, v)
		zz.Assert(decimalJSON(e.Bytes(), true, false), "string-uint8 JSON is a quoted canonical decimal")
		b, err := DecodeStringUint8(jx.DecodeBytes(e.Bytes()))
		zz.Assert(err == nil, "string-uint8 JSON decodes")
		zz.Assert(b == v, "string-uint8 JSON round-trips")
	}
}

func HJSmall16(kind int) {
	e := &jx.Encoder{}
	switch kind {
	case 2:
		v := zz.Int16()
		EncodeStringInt16(e, v)
		zz.Assert(decimalJSON(e.Bytes(), true, true), "string-int16 JSON is a quoted canonical decimal")
		b, err := DecodeStringInt16(jx.DecodeBytes(e.Bytes()))
		zz.Assert(err == nil, "string-int16 JSON decodes")
		zz.Assert(b == v, "string-int16 JSON round-trips")
	case 3:
		v := zz.Uint16()
		EncodeStringUint16(e, v)
		zz.Assert(decimalJSON(e.Bytes(), true, false), "string-uint16 JSON is a quoted canonical decimal")
		b, err := DecodeStringUint16(jx.DecodeBytes(e.Bytes()))
		zz.Assert(err == nil, "string-uint16 JSON decodes")
		zz.Assert(b == v, "string-uint16 JSON round-trips")
	}
}

// kind 0: int32, 1: int64, 2: int
func HJInt(kind, d, neg int) {
	e := &jx.Encoder{}
	switch kind {
	case 0:
		v := zz.Int32()
		zz.Assume((v < 0) == (neg != 0))
		assumeDigits(mag64(int64(v)), d)
		EncodeStringInt32(e, v)
		zz.Assert(decimalJSON(e.Bytes(), true, true), "string-int JSON is a quoted canonical decimal")
		b, err := DecodeStringInt32(jx.DecodeBytes(e.Bytes()))
		zz.Assert(err == nil, "string-int JSON decodes")
		zz.Assert(b == v, "string-int JSON round-trips")
	case 1:
		v := zz.Int64()
		zz.Assume((v < 0) == (neg != 0))
		assumeDigits(mag64(v), d)
		EncodeStringInt64(e, v)
		zz.Assert(decimalJSON(e.Bytes(), true, true), "string-int JSON is a quoted canonical decimal")
		b, err := DecodeStringInt64(jx.DecodeBytes(e.Bytes()))
		zz.Assert(err == nil, "string-int JSON decodes")
		zz.Assert(b == v, "string-int JSON round-trips")
	default:
		v := zz.Int()
		zz.Assume((v < 0) == (neg != 0))
		assumeDigits(mag64(int64(v)), d)
		EncodeStringInt(e, v)
		zz.Assert(decimalJSON(e.Bytes(), true, true), "string-int JSON is a quoted canonical decimal")
		b, err := DecodeStringInt(jx.DecodeBytes(e.Bytes()))
		zz.Assert(err == nil, "string-int JSON decodes")
		zz.Assert(b == v, "string-int JSON round-trips")
	}
}

// kind 0: uint32, 1: uint64, 2: uint
func HJUint(kind, d int) {
	e := &jx.Encoder{}
	switch kind {
	case 0:
		v := zz.Uint32()
		assumeDigits(uint64(v), d)
		EncodeStringUint32(e, v)
		zz.Assert(decimalJSON(e.Bytes(), true, false), "string-uint JSON is a quoted canonical decimal")
		b, err := DecodeStringUint32(jx.DecodeBytes(e.Bytes()))
		zz.Assert(err == nil, "string-uint JSON decodes")
		zz.Assert(b == v, "string-uint JSON round-trips")
	case 1:
		v := zz.Uint64()
		assumeDigits(v, d)
		EncodeStringUint64(e, v)
		zz.Assert(decimalJSON(e.Bytes(), true, false), "string-uint JSON is a quoted canonical decimal")
		b, err := DecodeStringUint64(jx.DecodeBytes(e.Bytes()))
		zz.Assert(err == nil, "string-uint JSON decodes")
		zz.Assert(b == v, "string-uint JSON round-trips")
	default:
		v := zz.Uint()
		assumeDigits(uint64(v), d)
		EncodeStringUint(e, v)
		zz.Assert(decimalJSON(e.Bytes(), true, false), "string-uint JSON is a quoted canonical decimal")
		b, err := DecodeStringUint(jx.DecodeBytes(e.Bytes()))
		zz.Assert(err == nil, "string-uint JSON decodes")
		zz.Assert(b == v, "string-uint JSON round-trips")
	}
}

func lowerHex(c byte) bool {
	return zz.Or(zz.And(c >= '0', c <= '9'), zz.And(c >= 'a', c <= 'f'))
}

func HJUUID() {
	var v uuid.UUID
	for i := range v {
		v[i] = zz.Byte()
	}
	e := &jx.Encoder{}
	EncodeUUID(e, v)
	s := e.Bytes()
	ok := len(s) == 38
	if ok {
		ok = zz.And(s[0] == '"', s[37] == '"')
		for i := 0; i < 36; i++ {
			if i == 8 || i == 13 || i == 18 || i == 23 {
				ok = zz.And(ok, s[1+i] == '-')
			} else {
				ok = zz.And(ok, lowerHex(s[1+i]))
			}
		}
	}
	zz.Assert(ok, "uuid JSON is a quoted 8-4-4-4-12 lower-case hex string")
	b, err := DecodeUUID(jx.DecodeBytes(s))
	zz.Assert(err == nil, "uuid JSON decodes")
	zz.Assert(b == v, "uuid JSON round-trips")
}

func HJMAC(split int) {
	v := net.HardwareAddr(zz.Bytes(6))
	// split the 2^12 letter/digit nibble patterns over 16 cases
	zz.Assume((v[0]>>4 >= 10) == (split&1 != 0))
	zz.Assume((v[0]&15 >= 10) == (split&2 != 0))
	zz.Assume((v[1]>>4 >= 10) == (split&4 != 0))
	zz.Assume((v[1]&15 >= 10) == (split&8 != 0))
	e := &jx.Encoder{}
	EncodeMAC(e, v)
	s := e.Bytes()
	zz.Assert(len(s) == 19, "mac JSON has the expected length")
	b, err := DecodeMAC(jx.DecodeBytes(s))
	zz.Assert(err == nil, "mac JSON decodes")
	zz.Assert(zz.EqBytes(b, v), "mac JSON round-trips")
}

func HJIPv4() {
	var a [4]byte
	for i := range a {
		a[i] = zz.Byte()
	}
	v := netip.AddrFrom4(a)
	e := &jx.Encoder{}
	EncodeIPv4(e, v)
	b, err := DecodeIPv4(jx.DecodeBytes(e.Bytes()))
	zz.Assert(err == nil, "ipv4 JSON decodes")
	zz.Assert(b == v, "ipv4 JSON round-trips")
	b2, err2 := DecodeIP(jx.DecodeBytes(e.Bytes()))
	zz.Assert(zz.And(err2 == nil, b2 == v), "ip JSON round-trips")
}

// unit 0: seconds, 1: milli, 2: micro, 3: nano; str: JSON string form
func HJUnix(unit, str, d, neg int) {
	v := zz.Int64()
	zz.Assume((v < 0) == (neg != 0))
	assumeDigits(mag64(v), d)
	e := &jx.Encoder{}
	var (
		t    time.Time
		back time.Time
		err  error
	)
	switch unit {
	case 0:
		t = time.Unix(v, 0)
		if str != 0 {
			EncodeStringUnixSeconds(e, t)
			back, err = DecodeStringUnixSeconds(jx.DecodeBytes(e.Bytes()))
		} else {
			EncodeUnixSeconds(e, t)
			back, err = DecodeUnixSeconds(jx.DecodeBytes(e.Bytes()))
		}
	case 1:
		t = time.UnixMilli(v)
		if str != 0 {
			EncodeStringUnixMilli(e, t)
			back, err = DecodeStringUnixMilli(jx.DecodeBytes(e.Bytes()))
		} else {
			EncodeUnixMilli(e, t)
			back, err = DecodeUnixMilli(jx.DecodeBytes(e.Bytes()))
		}
	case 2:
		t = time.UnixMicro(v)
		if str != 0 {
			EncodeStringUnixMicro(e, t)
			back, err = DecodeStringUnixMicro(jx.DecodeBytes(e.Bytes()))
		} else {
			EncodeUnixMicro(e, t)
			back, err = DecodeUnixMicro(jx.DecodeBytes(e.Bytes()))
		}
	default:
		t = time.Unix(0, v)
		if str != 0 {
			EncodeStringUnixNano(e, t)
			back, err = DecodeStringUnixNano(jx.DecodeBytes(e.Bytes()))
		} else {
			EncodeUnixNano(e, t)
			back, err = DecodeUnixNano(jx.DecodeBytes(e.Bytes()))
		}
	}
	zz.Assert(decimalJSON(e.Bytes(), str != 0, true), "unix JSON is a canonical decimal (quoted in the string form)")
	zz.Assert(err == nil, "unix JSON decodes")
	zz.Assert(back == t, "unix Time value round-trips through JSON exactly")
}


// HJDuration: EncodeDuration writes exactly the text time.Duration.String() gives (json/std_duration.go is a
// port of that method; both are executed from SSA on the same symbolic value). Magnitude class cls:
// 0: < 1us, 1: < 1ms, 2: < 1s, 3: < 1min, 4: < 1h, 5: < 100h, 6: the rest up to MaxInt64; sign by neg.
// Decoding goes through time.ParseDuration, whose fraction scaling uses float64: NOT decided here.
func HJDuration(cls, neg int) {
	v := zz.Int64()
	bounds := []int64{0, 1000, 1000000, 1000000000, 60000000000, 3600000000000, 360000000000000, 9223372036854775807}
	zz.Assume(zz.And(v >= bounds[cls], v < bounds[cls+1]))
	if cls == 6 && neg == 2 { // the extreme value
		v = -9223372036854775807 - 1
	} else if neg != 0 {
		v = -v
	}
	e := &jx.Encoder{}
	EncodeDuration(e, time.Duration(v))
	want := time.Duration(v).String()
	got := string(e.Bytes())
	zz.Cover("duration-encoded")
	zz.Assert(len(got) == len(want)+2 && got[0] == '"' && got[len(got)-1] == '"' && zz.EqString(got[1:len(got)-1], want), "EncodeDuration writes the text of time.Duration.String for every duration")
}


// HJIPv6: IPv6 addresses of a few shapes with symbolic groups: 0: IPv4-mapped ::ffff:a.b.c.d (four symbolic
// bytes), 1: 2001:db8::X:Y (two symbolic groups at the end), 2: X:0:0:0:0:0:0:Y, 3: 0:0:X:0:0:Y:0:0,
// 4: fe80::X (one symbolic group), 5: ::X:Y (IPv4-compatible look-alike). The text form (zero-run
// compression, embedded dotted quad) must parse back to the same address and keep its version.
func HJIPv6(kind int) {
	var a [16]byte
	sym := func(i int) {
		a[i] = zz.Byte()
	}
	switch kind {
	case 0:
		a[10], a[11] = 0xff, 0xff
		sym(12)
		sym(13)
		sym(14)
		sym(15)
	case 1:
		a[0], a[1], a[2], a[3] = 0x20, 0x01, 0x0d, 0xb8
		sym(12)
		sym(13)
		sym(14)
		sym(15)
	case 2:
		sym(0)
		sym(1)
		sym(14)
		sym(15)
	case 3:
		sym(4)
		sym(5)
		sym(10)
		sym(11)
	case 4:
		a[0], a[1] = 0xfe, 0x80
		sym(14)
		sym(15)
	default:
		sym(12)
		sym(13)
		sym(14)
		sym(15)
	}
	v := netip.AddrFrom16(a)
	e := &jx.Encoder{}
	EncodeIPv6(e, v)
	b, err := DecodeIPv6(jx.DecodeBytes(e.Bytes()))
	zz.Cover("ipv6-encoded")
	zz.Assert(err == nil, "ipv6 JSON decodes (the encoder's own text is accepted as an IPv6 address)")
	zz.Assert(b == v, "ipv6 JSON round-trips")
	b2, err2 := DecodeIP(jx.DecodeBytes(e.Bytes()))
	zz.Assert(zz.And(err2 == nil, b2 == v), "ip JSON round-trips (ipv6)")
}
