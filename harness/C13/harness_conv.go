package conv

// C13 harness: XToString / ToX pairs of package conv, for EVERY value of the
// type (one symbolic variable of full width; wide integers are split into
// digit-count x sign cases only to spread the work over solver processes).

import (
	"net"
	"net/netip"
	"time"

	"github.com/google/uuid"

	zz "github.com/ogen-go/ogen/internal/zzverif"
)

var ZZEntries = map[string]func([]int){
	"HSmall":  func(a []int) { HSmall(a[0]) },
	"HInt32":  func(a []int) { HInt32(a[0], a[1]) },
	"HInt64":  func(a []int) { HInt64(a[0], a[1], a[2]) },
	"HUint32": func(a []int) { HUint32(a[0]) },
	"HUint64": func(a []int) { HUint64(a[0], a[1]) },
	"HBool":   func(a []int) { HBool() },
	"HUUID":   func(a []int) { HUUID() },
	"HMAC":    func(a []int) { HMAC(a[0], a[1]) },
	"HAddr4":  func(a []int) { HAddr4() },
	"HUnix":   func(a []int) { HUnix(a[0], a[1], a[2]) },
	"HCDateDec":     func(a []int) { HCDateDec() },
	"HCTimeDec":     func(a []int) { HCTimeDec() },
	"HCDateTimeDec": func(a []int) { HCDateTimeDec(a[0]) },
	"HCDate":        func(a []int) { HCDate(a[0], a[1]) },
	"HCDateTime":    func(a []int) { HCDateTime(a[0], a[1], a[2]) },
	"HCTime":        func(a []int) { HCTime() },
}

// decimal syntax: -?(0|[1-9][0-9]*)
func decimalSyntax(s string, signed bool) bool {
	if len(s) == 0 {
		return false
	}
	i := 0
	ok := true
	if s[0] == '-' {
		if !signed || len(s) == 1 {
			return false
		}
		i = 1
	}
	if len(s)-i > 1 {
		ok = zz.And(ok, s[i] != '0')
	}
	for ; i < len(s); i++ {
		ok = zz.And(ok, zz.And(s[i] >= '0', s[i] <= '9'))
	}
	return ok
}

var pow10 = [20]uint64{1, 10, 100, 1000, 10000, 100000, 1000000, 10000000, 100000000, 1000000000, 10000000000, 100000000000,
	1000000000000, 10000000000000, 100000000000000, 1000000000000000, 10000000000000000, 100000000000000000, 1000000000000000000, 10000000000000000000}

// assumeDigits restricts m (a magnitude) to values with exactly d decimal digits (d == 0: no restriction).
func assumeDigits(m uint64, d int) {
	if d == 0 {
		return
	}
	if d == 1 {
		zz.Assume(m < 10)
		return
	}
	zz.Assume(m >= pow10[d-1])
	if d < 20 {
		zz.Assume(m < pow10[d])
	}
}

// HSmall: 8- and 16-bit integers, every value in one query set.
func HSmall(kind int) {
	switch kind {
	case 0:
		v := zz.Int8()
		s := Int8ToString(v)
		zz.Assert(decimalSyntax(s, true), "int8 text is a canonical decimal")
		b, err := ToInt8(s)
		zz.Assert(err == nil, "int8 text parses")
		zz.Assert(b == v, "int8 round-trips")
		s2 := StringInt8ToString(v)
		b2, err2 := ToStringInt8(s2)
		zz.Assert(zz.And(err2 == nil, b2 == v), "string-int8 round-trips")
	case 1:
		v := zz.Uint8()
		s := Uint8ToString(v)
		zz.Assert(decimalSyntax(s, false), "uint8 text is a canonical decimal")
		b, err := ToUint8(s)
		zz.Assert(err == nil, "uint8 text parses")
		zz.Assert(b == v, "uint8 round-trips")
		s2 := StringUint8ToString(v)
		b2, err2 := ToStringUint8(s2)
		zz.Assert(zz.And(err2 == nil, b2 == v), "string-uint8 round-trips")
	case 2:
		v := zz.Int16()
		s := Int16ToString(v)
		zz.Assert(decimalSyntax(s, true), "int16 text is a canonical decimal")
		b, err := ToInt16(s)
		zz.Assert(err == nil, "int16 text parses")
		zz.Assert(b == v, "int16 round-trips")
		s2 := StringInt16ToString(v)
		b2, err2 := ToStringInt16(s2)
		zz.Assert(zz.And(err2 == nil, b2 == v), "string-int16 round-trips")
	case 3:
		v := zz.Uint16()
		s := Uint16ToString(v)
		zz.Assert(decimalSyntax(s, false), "uint16 text is a canonical decimal")
		b, err := ToUint16(s)
		zz.Assert(err == nil, "uint16 text parses")
		zz.Assert(b == v, "uint16 round-trips")
		s2 := StringUint16ToString(v)
		b2, err2 := ToStringUint16(s2)
		zz.Assert(zz.And(err2 == nil, b2 == v), "string-uint16 round-trips")
	}
}

func mag32(v int32) uint64 {
	if v < 0 {
		return uint64(-int64(v))
	}
	return uint64(v)
}

func HInt32(d, neg int) {
	v := zz.Int32()
	zz.Assume((v < 0) == (neg != 0))
	assumeDigits(mag32(v), d)
	s := Int32ToString(v)
	zz.Assert(decimalSyntax(s, true), "int32 text is a canonical decimal")
	b, err := ToInt32(s)
	zz.Assert(err == nil, "int32 text parses")
	zz.Assert(b == v, "int32 round-trips")
	b2, err2 := ToStringInt32(StringInt32ToString(v))
	zz.Assert(zz.And(err2 == nil, b2 == v), "string-int32 round-trips")
}

func HUint32(d int) {
	v := zz.Uint32()
	assumeDigits(uint64(v), d)
	s := Uint32ToString(v)
	zz.Assert(decimalSyntax(s, false), "uint32 text is a canonical decimal")
	b, err := ToUint32(s)
	zz.Assert(err == nil, "uint32 text parses")
	zz.Assert(b == v, "uint32 round-trips")
	b2, err2 := ToStringUint32(StringUint32ToString(v))
	zz.Assert(zz.And(err2 == nil, b2 == v), "string-uint32 round-trips")
}

func mag64(v int64) uint64 {
	if v < 0 {
		return -uint64(v)
	}
	return uint64(v)
}

// kind 0: int64 pair, 1: int pair (Itoa/Atoi), 2: string-int64 pair, 3: string-int pair
func HInt64(kind, d, neg int) {
	v := zz.Int64()
	zz.Assume((v < 0) == (neg != 0))
	assumeDigits(mag64(v), d)
	var (
		s   string
		b   int64
		err error
	)
	switch kind {
	case 0:
		s = Int64ToString(v)
		b, err = ToInt64(s)
	case 1:
		s = IntToString(int(v))
		var bi int
		bi, err = ToInt(s)
		b = int64(bi)
	case 2:
		s = StringInt64ToString(v)
		b, err = ToStringInt64(s)
	default:
		s = StringIntToString(int(v))
		var bi int
		bi, err = ToStringInt(s)
		b = int64(bi)
	}
	zz.Assert(decimalSyntax(s, true), "int64/int text is a canonical decimal")
	zz.Assert(err == nil, "int64/int text parses")
	zz.Assert(b == v, "int64/int round-trips")
}

// kind 0: uint64, 1: uint, 2: string-uint64, 3: string-uint
func HUint64(kind, d int) {
	v := zz.Uint64()
	assumeDigits(v, d)
	var (
		s   string
		b   uint64
		err error
	)
	switch kind {
	case 0:
		s = Uint64ToString(v)
		b, err = ToUint64(s)
	case 1:
		s = UintToString(uint(v))
		var bu uint
		bu, err = ToUint(s)
		b = uint64(bu)
	case 2:
		s = StringUint64ToString(v)
		b, err = ToStringUint64(s)
	default:
		s = StringUintToString(uint(v))
		var bu uint
		bu, err = ToStringUint(s)
		b = uint64(bu)
	}
	zz.Assert(decimalSyntax(s, false), "uint64/uint text is a canonical decimal")
	zz.Assert(err == nil, "uint64/uint text parses")
	zz.Assert(b == v, "uint64/uint round-trips")
}

func HBool() {
	v := zz.Bool()
	s := BoolToString(v)
	zz.Assert(zz.Or(s == "true", s == "false"), "bool text is true or false")
	b, err := ToBool(s)
	zz.Assert(err == nil, "bool text parses")
	zz.Assert(b == v, "bool round-trips")
}

func lowerHex(c byte) bool {
	return zz.Or(zz.And(c >= '0', c <= '9'), zz.And(c >= 'a', c <= 'f'))
}

func HUUID() {
	var v uuid.UUID
	for i := range v {
		v[i] = zz.Byte()
	}
	s := UUIDToString(v)
	ok := len(s) == 36
	if ok {
		for i := 0; i < 36; i++ {
			if i == 8 || i == 13 || i == 18 || i == 23 {
				ok = zz.And(ok, s[i] == '-')
			} else {
				ok = zz.And(ok, lowerHex(s[i]))
			}
		}
	}
	zz.Assert(ok, "uuid text is 8-4-4-4-12 lower-case hex")
	b, err := ToUUID(s)
	zz.Assert(err == nil, "uuid text parses")
	zz.Assert(b == v, "uuid round-trips")
}

// n = 6: all bytes symbolic; n = 8, 20: four symbolic bytes (first, second, middle, last).
// split spreads the 2^k letter/digit nibble patterns over 16 cases.
func HMAC(n, split int) {
	v := make(net.HardwareAddr, n)
	for i := range v {
		v[i] = 0xAB
	}
	if n == 6 {
		for i := range v {
			v[i] = zz.Byte()
		}
	} else {
		v[0], v[1], v[n/2], v[n-1] = zz.Byte(), zz.Byte(), zz.Byte(), zz.Byte()
	}
	zz.Assume((v[0]>>4 >= 10) == (split&1 != 0))
	zz.Assume((v[0]&15 >= 10) == (split&2 != 0))
	zz.Assume((v[1]>>4 >= 10) == (split&4 != 0))
	zz.Assume((v[1]&15 >= 10) == (split&8 != 0))
	s := MACToString(v)
	ok := len(s) == 3*n-1
	if ok {
		for i := 0; i < len(s); i++ {
			if i%3 == 2 {
				ok = zz.And(ok, s[i] == ':')
			} else {
				ok = zz.And(ok, lowerHex(s[i]))
			}
		}
	}
	zz.Assert(ok, "mac text is colon-separated lower-case hex pairs")
	b, err := ToMAC(s)
	zz.Assert(err == nil, "mac text parses")
	zz.Assert(zz.EqBytes(b, v), "mac round-trips")
}

func HAddr4() {
	var a [4]byte
	for i := range a {
		a[i] = zz.Byte()
	}
	v := netip.AddrFrom4(a)
	s := AddrToString(v)
	// dotted decimal without leading zeros
	ok := true
	dots := 0
	start := 0
	for i := 0; i <= len(s); i++ {
		if i == len(s) || s[i] == '.' {
			if i == start || i-start > 3 {
				ok = false
			} else if i-start > 1 {
				ok = zz.And(ok, s[start] != '0')
			}
			start = i + 1
			if i < len(s) {
				dots++
			}
			continue
		}
		ok = zz.And(ok, zz.And(s[i] >= '0', s[i] <= '9'))
	}
	zz.Assert(zz.And(ok, dots == 3), "ipv4 text is dotted decimal without leading zeros")
	b, err := ToAddr(s)
	zz.Assert(err == nil, "ipv4 text parses")
	zz.Assert(b == v, "ipv4 round-trips")
}

// unit 0: seconds, 1: milli, 2: micro, 3: nano
func HUnix(unit, d, neg int) {
	v := zz.Int64()
	zz.Assume((v < 0) == (neg != 0))
	assumeDigits(mag64(v), d)
	var (
		t    time.Time
		s    string
		back time.Time
		err  error
		v2   int64
	)
	switch unit {
	case 0:
		t = time.Unix(v, 0)
		v2 = t.Unix()
		s = UnixSecondsToString(t)
		back, err = ToUnixSeconds(s)
	case 1:
		t = time.UnixMilli(v)
		v2 = t.UnixMilli()
		s = UnixMilliToString(t)
		back, err = ToUnixMilli(s)
	case 2:
		t = time.UnixMicro(v)
		v2 = t.UnixMicro()
		s = UnixMicroToString(t)
		back, err = ToUnixMicro(s)
	default:
		t = time.Unix(0, v)
		v2 = t.UnixNano()
		s = UnixNanoToString(t)
		back, err = ToUnixNano(s)
	}
	zz.Assert(v2 == v, "unix value -> Time -> value is the identity")
	zz.Assert(decimalSyntax(s, true), "unix text is a canonical decimal")
	zz.Assert(err == nil, "unix text parses")
	zz.Assert(back.Equal(t), "unix instant round-trips through text")
	zz.Assert(back == t, "unix Time value round-trips exactly")
}
