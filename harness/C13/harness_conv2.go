package conv

// C13 harness (conv side, second file): the time.Format / time.Parse based parameter formats - date, time,
// date-time - of package conv. Same decomposition as on the JSON side (harness_json2.go): the decoding half is
// decided for ALL texts of the format's shape at once; the composition To*(…ToString(t)) for a symbolic instant is
// decided per class of years.

import (
	"time"

	zz "github.com/ogen-go/ogen/internal/zzverif"
)

func cdigit(c byte) bool { return zz.And(c >= '0', c <= '9') }

func cnum2(a, b byte) int { return int(a-'0')*10 + int(b-'0') }

func cleap(y int) bool { return y%4 == 0 && (y%100 != 0 || y%400 == 0) }

// cvalidDay: the harness's own calendar rule (independent of package time).
func cvalidDay(y, m, d int) bool {
	if m < 1 || m > 12 || d < 1 {
		return false
	}
	switch m {
	case 4, 6, 9, 11:
		return d <= 30
	case 2:
		if cleap(y) {
			return d <= 29
		}
		return d <= 28
	}
	return d <= 31
}

func csymDigits(n int) []byte {
	b := make([]byte, n)
	for i := range b {
		b[i] = zz.Byte()
		zz.Assume(cdigit(b[i]))
	}
	return b
}

// HCDateDec: conv.ToDate on "YYYY-MM-DD" with eight arbitrary digits: accepted whenever it names a calendar day,
// and then midnight UTC of that day.
func HCDateDec() {
	g := csymDigits(8)
	y := cnum2(g[0], g[1])*100 + cnum2(g[2], g[3])
	m := cnum2(g[4], g[5])
	d := cnum2(g[6], g[7])
	txt := string([]byte{g[0], g[1], g[2], g[3], '-', g[4], g[5], '-', g[6], g[7]})
	back, err := ToDate(txt)
	valid := cvalidDay(y, m, d)
	zz.Cover("conv-date-decoded")
	zz.Assert(zz.Implies(valid, err == nil), "ToDate accepts every YYYY-MM-DD that is a calendar day")
	if err == nil && valid {
		zz.Cover("conv-date-decoded-ok")
		zz.Assert(back.Equal(time.Date(y, time.Month(m), d, 0, 0, 0, 0, time.UTC)), "ToDate returns midnight UTC of the day the text names")
	}
}

// HCTimeDec: conv.ToTime on "HH:MM:SS".
func HCTimeDec() {
	g := csymDigits(6)
	hh, mi, ss := cnum2(g[0], g[1]), cnum2(g[2], g[3]), cnum2(g[4], g[5])
	txt := string([]byte{g[0], g[1], ':', g[2], g[3], ':', g[4], g[5]})
	back, err := ToTime(txt)
	valid := hh < 24 && mi < 60 && ss < 60
	zz.Cover("conv-time-decoded")
	zz.Assert(zz.Implies(valid, err == nil), "ToTime accepts every HH:MM:SS whose fields are in range")
	if err == nil && valid {
		zz.Assert(back.Hour() == hh && back.Minute() == mi && back.Second() == ss, "ToTime returns the time of day the text names")
	}
}

// HCDateTimeDec: conv.ToDateTime on "YYYY-MM-DDTHH:MM:SS" + Z (zone 0) / +hh:mm (1) / -hh:mm (2).
func HCDateTimeDec(zone int) {
	g := csymDigits(14)
	y := cnum2(g[0], g[1])*100 + cnum2(g[2], g[3])
	m := cnum2(g[4], g[5])
	d := cnum2(g[6], g[7])
	hh, mi, ss := cnum2(g[8], g[9]), cnum2(g[10], g[11]), cnum2(g[12], g[13])
	txt := []byte{g[0], g[1], g[2], g[3], '-', g[4], g[5], '-', g[6], g[7], 'T', g[8], g[9], ':', g[10], g[11], ':', g[12], g[13]}
	valid := cvalidDay(y, m, d) && hh < 24 && mi < 60 && ss < 60
	off := 0
	if zone == 0 {
		txt = append(txt, 'Z')
	} else {
		z := csymDigits(4)
		oh, om := cnum2(z[0], z[1]), cnum2(z[2], z[3])
		valid = valid && oh < 24 && om < 60
		off = (oh*60 + om) * 60
		sign := byte('+')
		if zone == 2 {
			sign = '-'
			off = -off
		}
		txt = append(txt, sign, z[0], z[1], ':', z[2], z[3])
	}
	back, err := ToDateTime(string(txt))
	zz.Cover("conv-date-time-decoded")
	zz.Assert(zz.Implies(valid, err == nil), "ToDateTime accepts every RFC 3339 date-time whose fields are in range")
	if err == nil && valid {
		zz.Cover("conv-date-time-decoded-ok")
		want := time.Date(y, time.Month(m), d, hh, mi, ss, 0, time.UTC).Unix() - int64(off)
		zz.Assert(zz.And(back.Unix() == want, back.Nanosecond() == 0), "ToDateTime returns the instant the text denotes")
		_, boff := back.Zone()
		zz.Assert(boff == off, "ToDateTime keeps the offset the text carries")
	}
}

// HCDate: DateToString -> ToDate for every day of the years ylo..yhi; HCDateTime likewise for every second (UTC).
func HCDate(ylo, yhi int) {
	lo := time.Date(ylo, 1, 1, 0, 0, 0, 0, time.UTC).Unix()
	hi := time.Date(yhi+1, 1, 1, 0, 0, 0, 0, time.UTC).Unix()
	k := zz.Int64()
	zz.Assume(zz.And(k >= lo/86400, k < hi/86400))
	sec := k * 86400
	s := DateToString(time.Unix(sec, 0).UTC())
	zz.Cover("conv-date-encoded")
	zz.Assert(len(s) == 10 && s[4] == '-' && s[7] == '-', "date text is YYYY-MM-DD")
	back, err := ToDate(s)
	zz.Assert(err == nil, "date text parses")
	zz.Assert(zz.And(back.Unix() == sec, back.Nanosecond() == 0), "date round-trips through text to the same day")
}

// HCDateTime: offMin is a concrete offset in minutes east of UTC (0: UTC), as on the JSON side.
func HCDateTime(ylo, yhi, offMin int) {
	lo := time.Date(ylo, 1, 1, 0, 0, 0, 0, time.UTC).Unix()
	hi := time.Date(yhi+1, 1, 1, 0, 0, 0, 0, time.UTC).Unix()
	sec := zz.Int64()
	zz.Assume(zz.And(sec >= lo+86400, sec < hi-86400))
	t := time.Unix(sec, 0).UTC()
	off := offMin * 60
	if offMin != 0 {
		t = t.In(time.FixedZone("", off))
	}
	s := DateTimeToString(t)
	zz.Cover("conv-date-time-encoded")
	if offMin == 0 {
		zz.Assert(len(s) == 20 && s[19] == 'Z' && s[10] == 'T', "UTC date-time text is YYYY-MM-DDTHH:MM:SSZ")
	} else {
		a, sign := offMin, byte('+')
		if a < 0 {
			a, sign = -a, '-'
		}
		want := string([]byte{sign, '0' + byte(a/600), '0' + byte(a/60%10), ':', '0' + byte(a%60/10), '0' + byte(a%10)})
		zz.Assert(len(s) == 25 && s[10] == 'T' && zz.EqString(s[19:], want), "a zoned date-time text ends in its offset written as +hh:mm / -hh:mm")
	}
	back, err := ToDateTime(s)
	zz.Assert(err == nil, "date-time text parses")
	zz.Assert(zz.And(back.Unix() == sec, back.Nanosecond() == 0), "date-time round-trips through text to the same instant")
	_, boff := back.Zone()
	zz.Assert(boff == off, "date-time keeps its UTC offset through text")
}

// HCTime: TimeToString -> ToTime for every second of the day.
func HCTime() {
	sd := zz.Int64()
	zz.Assume(zz.And(sd >= 0, sd < 86400))
	s := TimeToString(time.Unix(sd, 0).UTC())
	zz.Cover("conv-time-encoded")
	zz.Assert(len(s) == 8 && s[2] == ':' && s[5] == ':', "time text is HH:MM:SS")
	back, err := ToTime(s)
	zz.Assert(err == nil, "time text parses")
	zz.Assert(int64(back.Hour())*3600+int64(back.Minute())*60+int64(back.Second()) == sd, "time of day round-trips through text")
}
