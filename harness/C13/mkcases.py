#!/usr/bin/env python3
import json, os
def P(*r): return [list(x) for x in r]
ALLD64 = list(range(1, 20))
def int64cases(kinds, digits):
    return [[k, d, n] for k in kinds for d in digits for n in (0, 1)]
quick_conv = [
 {"entry": "HSmall", "product": [[0, 3]]}, {"entry": "HBool"}, {"entry": "HUUID"}, {"entry": "HAddr4"},
 {"entry": "HInt32", "args": [[d, n] for d in (1, 2, 5, 10) for n in (0, 1)]},
 {"entry": "HUint32", "args": [[d] for d in (1, 5, 10)]},
 {"entry": "HInt64", "args": int64cases([0], [1, 2, 10, 19]) + int64cases([1, 2, 3], [19])},
 {"entry": "HUint64", "args": [[0, 1], [0, 10], [0, 20], [1, 20], [2, 19], [3, 20]]},
 {"entry": "HMAC", "product": [[6, 6], [0, 15]]},
 {"entry": "HUnix", "args": [[0, d, n] for d in (1, 10, 19) for n in (0, 1)] + [[u, 1, 0] for u in (1, 2, 3)] + [[1, 14, 0]]},
]
thorough_conv = [
 {"entry": "HSmall", "product": [[0, 3]]}, {"entry": "HBool"}, {"entry": "HUUID"}, {"entry": "HAddr4"},
 {"entry": "HInt32", "product": [[1, 10], [0, 1]]},
 {"entry": "HUint32", "product": [[1, 10]]},
 {"entry": "HInt64", "args": int64cases([0, 1, 2, 3], ALLD64)},
 {"entry": "HUint64", "args": [[k, d] for k in range(4) for d in range(1, 21)]},
 {"entry": "HMAC", "product": [[6, 6], [0, 15]]},
 {"entry": "HMAC", "args": [[8, s] for s in range(16)] + [[20, s] for s in range(16)]},
 {"entry": "HUnix", "args": [[0, d, n] for d in ALLD64 for n in (0, 1)] + [[u, d, 0] for u in (1, 2, 3) for d in ALLD64] + [[u, d, 1] for u in (1, 2, 3) for d in range(1, 7)]},
]
quick_json = [
 {"entry": "HJInt8"}, {"entry": "HJUint8"}, {"entry": "HJInt16"}, {"entry": "HJUint16"}, {"entry": "HJUUID"}, {"entry": "HJIPv4"},
 {"entry": "HJInt", "args": [[0, 1, 0], [0, 10, 1], [1, 1, 1], [1, 10, 0], [1, 19, 1], [2, 19, 0]]},
 {"entry": "HJUint", "args": [[0, 10], [1, 1], [1, 20], [2, 20]]},
 {"entry": "HJMAC", "product": [[0, 15]]},
 {"entry": "HJUnix", "args": [[0, 1, 14, 0], [1, 1, 13, 0], [1, 0, 4, 0], [2, 0, 3, 1]]},
 {"entry": "HJDuration", "args": [[c, n] for c in range(6) for n in (0, 1)] + [[6, 0], [6, 2]]},
 {"entry": "HJIPv6", "args": [[0], [2], [4]]},
]
thorough_json = [
 {"entry": "HJInt8"}, {"entry": "HJUint8"}, {"entry": "HJInt16"}, {"entry": "HJUint16"}, {"entry": "HJUUID"}, {"entry": "HJIPv4"},
 {"entry": "HJInt", "args": [[0, d, n] for d in range(1, 11) for n in (0, 1)] + [[k, d, n] for k in (1, 2) for d in ALLD64 for n in (0, 1)]},
 {"entry": "HJUint", "args": [[0, d] for d in range(1, 11)] + [[k, d] for k in (1, 2) for d in range(1, 21)]},
 {"entry": "HJMAC", "product": [[0, 15]]},
 {"entry": "HJUnix", "args": [[u, 1, d, 0] for u in range(4) for d in ALLD64] + [[u, 1, d, 1] for u in range(4) for d in range(1, 7)] + [[u, 0, d, n] for u in range(4) for d in (1, 2, 3, 4, 5) for n in (0, 1)]},
 {"entry": "HJDuration", "args": [[c, n] for c in range(7) for n in (0, 1)] + [[6, 2]]},
 {"entry": "HJIPv6", "product": [[0, 5]]},
]
spec = {
 "property": "C13", "level": "model_checking",
 "time_budget_s": {"quick": 600, "thorough": 7200},
 "units": [
  {"name": "conv", "pkg": "github.com/ogen-go/ogen/conv", "dir": "conv", "harness": ["harness_conv.go"], "prefer": "cvc5-bv-as-int", "pipe_timeout_ms": 3000,
   "cases": {"quick": quick_conv, "thorough": thorough_conv}},
  {"name": "json", "pkg": "github.com/ogen-go/ogen/json", "dir": "json", "harness": ["harness_json.go"], "prefer": "cvc5-bv-as-int", "pipe_timeout_ms": 3000,
   "cases": {"quick": quick_json, "thorough": thorough_json}},
 ],
 "bounds": {
  "integers": "int8/uint8/int16/uint16/bool: every value (one symbolic variable). int32/uint32/int64/uint64/int/uint: every value of the digit-count x sign classes listed in the cases - quick: a subset of the digit counts incl. the longest (10 / 19 / 20 digits, so MinInt64 and MaxUint64 are inside), thorough: every digit count, i.e. every value of the type",
  "duration": "json.EncodeDuration (ogen's port of time.Duration.String) writes the text of time.Duration.String for EVERY int64 duration (seven magnitude classes x sign, MinInt64; quick leaves the negative > 100h class to thorough); decoding (time.ParseDuration, float64 scaling) is not decided",
  "uuid": "all 2^128 values (16 symbolic bytes)", "ipv4": "all 2^32 addresses", "ipv6": "six address shapes with 2..4 symbolic bytes each (IPv4-mapped ::ffff:a.b.c.d, 2001:db8::X:Y, X::Y, 0:0:X:0:0:Y:0:0, fe80::X, ::X:Y; quick: three of them): the encoder's text decodes back to the same address as IPv6 - NOT all 2^128 addresses", "mac": "length 6: all 2^48 values; thorough also lengths 8 and 20 with four symbolic bytes",
  "unix": "seconds/milli/micro/nano: value -> Time -> value and Time -> text -> Time for every int64 of the listed digit-count classes (quick: seconds 1/10/19 digits both signs, milli/micro/nano 1 digit, milli also 14 digits; thorough: every digit count); the JSON pairs likewise (quick: seconds and milli, 13-14 digits). Negative milli/micro/nano values with more than 6 digits are OUTSIDE the claim (sdiv/srem chains: solver unknown under the cap)"},
 "assumptions": ["strconv's digit-pair table smallsString, jx/uuid hex tables: replaced by arithmetic closed forms only after the closed form was checked against EVERY entry of the real table (verified table summary)", "unique.Make (netip zone interning) modelled as interning by value", "queries with wide division/remainder go first through the engine's integer translation (bit-vector to Int with interval-justified mod elimination, self-checked on every query against the bit-vector evaluator and differentially validated against the bit-vector solvers on ~5000 small queries), then cvc5 --solve-bv-as-int=sum, then z3 5.1 / z3 4.8.12 bit-blasting"],
 "out_of_claim": "JSON NUMBER-form unix timestamps (jx Encoder.Int64 uses a 1000-entry packed digit table) beyond 5 digits (9 digits take two minutes per case, 13 do not finish): jx's unrolled number reader on top of the packed three-digit table of its encoder is not closed under the solver cap at full width, so NOT decided (the string forms and the conv pairs are); float32/float64 (shortest-decimal algorithms, FP theory), time.Format/Parse based formats (date, time, date-time), duration DECODING and conv's duration pair (time.ParseDuration scales fractions in float64), URL, IPv6 addresses outside the six listed shapes, zoned addresses, big.* - not decided by this check"
}
json.dump(spec, open(os.path.join(os.path.dirname(__file__), "check.json"), "w"), indent=0)
