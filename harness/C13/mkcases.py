#!/usr/bin/env python3
import json, os
def P(*r): return [list(x) for x in r]
ALLD64 = list(range(1, 20))
def int64cases(kinds, digits):
    return [[k, d, n] for k in kinds for d in digits for n in (0, 1)]
quick_conv = [
 {"entry": "HSmall", "product": [[0, 3]]}, {"entry": "HBool"}, {"entry": "HUUID"}, {"entry": "HAddr4"},
 {"entry": "HInt32", "args": [[d, n] for d in (1, 2, 5, 10) for n in (0, 1)]},
 {"entry": "HUint32", "args": [[d] for d in (1, 5, 10)]},
 {"entry": "HInt64", "args": int64cases([0], [1, 2, 10, 19]) + int64cases([1, 2, 3], [19])},
 {"entry": "HUint64", "args": [[0, 1], [0, 10], [0, 20], [1, 20], [2, 19], [3, 20]]},
 {"entry": "HMAC", "product": [[6, 6], [0, 15]]},
 {"entry": "HUnix", "args": [[0, d, n] for d in (1, 10, 19) for n in (0, 1)] + [[u, 1, 0] for u in (1, 2, 3)] + [[1, 14, 0]]},
]
thorough_conv = [
 {"entry": "HSmall", "product": [[0, 3]]}, {"entry": "HBool"}, {"entry": "HUUID"}, {"entry": "HAddr4"},
 {"entry": "HInt32", "product": [[1, 10], [0, 1]]},
 {"entry": "HUint32", "product": [[1, 10]]},
 {"entry": "HInt64", "args": int64cases([0, 1, 2, 3], ALLD64)},
 {"entry": "HUint64", "args": [[k, d] for k in range(4) for d in range(1, 21)]},
 {"entry": "HMAC", "product": [[6, 6], [0, 15]]},
 {"entry": "HMAC", "args": [[8, s] for s in range(16)] + [[20, s] for s in range(16)]},
 {"entry": "HUnix", "args": [[0, d, n] for d in ALLD64 for n in (0, 1)] + [[u, d, 0] for u in (1, 2, 3) for d in ALLD64] + [[u, d, 1] for u in (1, 2, 3) for d in range(1, 7)]},
]
CENT = [[-1 if c < 0 else 100*c+1, 0 if c < 0 else (9999 if c == 99 else 100*c+100)] for c in range(-1, 100)]
CENT[0] = [0, 0]
quick_time_conv = [
 {"entry": "HCDateDec"}, {"entry": "HCTimeDec"}, {"entry": "HCTime"},
 {"entry": "HCDateTimeDec", "args": [[0], [1]]},
 {"entry": "HCDate", "args": [[2000, 2000]]},
 {"entry": "HCDateTime", "args": [[2024, 2024, -480], [1970, 1970, 0]]},
]
thorough_time_conv = quick_time_conv + [{"entry": "HCDateTimeDec", "args": [[2]]}]
quick_time_json = [
 {"entry": "HJUnixDec", "args": [[0, 10, 0], [0, 10, 1], [1, 13, 0], [1, 14, 1], [2, 16, 0], [3, 19, 0], [3, 19, 1]]},
 {"entry": "HJUnixEnc", "args": [[0, 10, 0], [0, 19, 1], [1, 13, 0], [1, 14, 1], [2, 16, 1], [3, 19, 0]]},
 {"entry": "HJNumText", "args": [[6, 0], [10, 1]]},
 {"entry": "HJDateDec"}, {"entry": "HJTimeDec"}, {"entry": "HJTime"},
 {"entry": "HJDateTimeDec", "args": [[0], [1], [2]]},
 {"entry": "HJDate", "args": [[2000, 2000]]},
 {"entry": "HJDateTime", "args": [[2000, 2000, 0], [2024, 2024, 330]]},
]
thorough_time_json = [
 {"entry": "HJUnixDec", "args": [[u, d, n] for u in range(4) for d in ALLD64 for n in (0, 1)]},
 {"entry": "HJUnixEnc", "args": [[u, d, n] for u in range(4) for d in ALLD64 for n in (0, 1)]},
 {"entry": "HJNumText", "args": [[6, 0], [10, 1], [13, 0]]},
 {"entry": "HJDateDec"}, {"entry": "HJTimeDec"}, {"entry": "HJTime"},
 {"entry": "HJDateTimeDec", "args": [[0], [1], [2]]},
 {"entry": "HJDate", "args": [[2000, 2000], [1999, 1999], [0, 0]]},
 {"entry": "HJDateTime", "args": [[2000, 2000, 0], [2024, 2024, 330], [2024, 2024, -480]]},
]
quick_json = [
 {"entry": "HJInt8"}, {"entry": "HJUint8"}, {"entry": "HJInt16"}, {"entry": "HJUint16"}, {"entry": "HJUUID"}, {"entry": "HJIPv4"},
 {"entry": "HJInt", "args": [[0, 1, 0], [0, 10, 1], [1, 1, 1], [1, 10, 0], [1, 19, 1], [2, 19, 0]]},
 {"entry": "HJUint", "args": [[0, 10], [1, 1], [1, 20], [2, 20]]},
 {"entry": "HJMAC", "product": [[0, 15]]},
 {"entry": "HJUnix", "args": [[0, 1, 14, 0], [1, 1, 13, 0], [1, 0, 4, 0], [2, 0, 3, 1]]},
 {"entry": "HJDuration", "args": [[c, n] for c in range(6) for n in (0, 1)] + [[6, 0], [6, 2]]},
 {"entry": "HJIPv6", "args": [[0], [2], [4]]},
] + quick_time_json
thorough_json = [
 {"entry": "HJInt8"}, {"entry": "HJUint8"}, {"entry": "HJInt16"}, {"entry": "HJUint16"}, {"entry": "HJUUID"}, {"entry": "HJIPv4"},
 {"entry": "HJInt", "args": [[0, d, n] for d in range(1, 11) for n in (0, 1)] + [[k, d, n] for k in (1, 2) for d in ALLD64 for n in (0, 1)]},
 {"entry": "HJUint", "args": [[0, d] for d in range(1, 11)] + [[k, d] for k in (1, 2) for d in range(1, 21)]},
 {"entry": "HJMAC", "product": [[0, 15]]},
 {"entry": "HJUnix", "args": [[u, 1, d, 0] for u in range(4) for d in ALLD64] + [[u, 1, d, 1] for u in range(4) for d in range(1, 7)] + [[u, 0, d, n] for u in range(4) for d in (1, 2, 3, 4, 5) for n in (0, 1)]},
 {"entry": "HJDuration", "args": [[c, n] for c in range(7) for n in (0, 1)] + [[6, 2]]},
 {"entry": "HJIPv6", "product": [[0, 5]]},
] + thorough_time_json
spec = {
 "property": "C13", "level": "model_checking",
 "time_budget_s": {"quick": 600, "thorough": 7200},
 "units": [
  {"name": "conv", "pkg": "github.com/ogen-go/ogen/conv", "dir": "conv", "harness": ["harness_conv.go", "harness_conv2.go"], "prefer": "cvc5-bv-as-int", "pipe_timeout_ms": 3000,
   "cases": {"quick": quick_conv + quick_time_conv, "thorough": thorough_conv + thorough_time_conv}},
  {"name": "json", "pkg": "github.com/ogen-go/ogen/json", "dir": "json", "harness": ["harness_json.go", "harness_json2.go"], "prefer": "cvc5-bv-as-int", "pipe_timeout_ms": 3000,
   "cases": {"quick": quick_json, "thorough": thorough_json}},
 ],
 "bounds": {
  "integers": "int8/uint8/int16/uint16/bool: every value (one symbolic variable). int32/uint32/int64/uint64/int/uint: every value of the digit-count x sign classes listed in the cases - quick: a subset of the digit counts incl. the longest (10 / 19 / 20 digits, so MinInt64 and MaxUint64 are inside), thorough: every digit count, i.e. every value of the type",
  "duration": "json.EncodeDuration (ogen's port of time.Duration.String) writes the text of time.Duration.String for EVERY int64 duration (seven magnitude classes x sign, MinInt64; quick leaves the negative > 100h class to thorough); decoding (time.ParseDuration, float64 scaling) is not decided",
  "uuid": "all 2^128 values (16 symbolic bytes)", "ipv4": "all 2^32 addresses", "ipv6": "six address shapes with 2..4 symbolic bytes each (IPv4-mapped ::ffff:a.b.c.d, 2001:db8::X:Y, X::Y, 0:0:X:0:0:Y:0:0, fe80::X, ::X:Y; quick: three of them): the encoder's text decodes back to the same address as IPv6 - NOT all 2^128 addresses", "mac": "length 6: all 2^48 values; thorough also lengths 8 and 20 with four symbolic bytes",
  "unix": "seconds/milli/micro/nano: value -> Time -> value and Time -> text -> Time for every int64 of the listed digit-count classes (quick: seconds 1/10/19 digits both signs, milli/micro/nano 1 digit, milli also 14 digits; thorough: every digit count); the JSON pairs likewise (quick: seconds and milli, 13-14 digits). Negative milli/micro/nano values with more than 6 digits are OUTSIDE the claim (sdiv/srem chains: solver unknown under the cap)"},
 "bounds_time_formats": "date / time / date-time (time.Format + time.Parse behind json.Encode*/Decode* and conv.*ToString/To*): (a) DECODING half, solver-decided for ALL texts of the format's shape at once - eight/six/fourteen(+four) arbitrary digits in YYYY-MM-DD, HH:MM:SS, YYYY-MM-DDTHH:MM:SS followed by Z, +hh:mm or -hh:mm: every text whose fields are in range (own calendar rule incl. the 400-year leap rule) is accepted and yields the instant/offset it denotes (reference constructor time.Date); refusal of out-of-range texts is NOT asserted (C13 does not state it; Go accepts the offset +24:60). (b) the COMPOSITION encode -> decode for a symbolic instant: time of day: all 86400 seconds; date: quick the year 2000 (366 days incl. 29 February of a year divisible by 400), thorough also the years 1999 and 0000 (whole centuries took 4-9 minutes each; the thorough tier with all of them was not run to completion in the session that added them, so they are not registered); date-time: quick every second of 2000 in UTC and of 2024 at +05:30, thorough also 2024 at -08:00. The offset is a concrete case parameter. Outside: fractional seconds, years outside 0000..9999, custom layouts (NewTimeEncoder with a user layout), zone names",
 "bounds_unix_number_form": "JSON NUMBER-form unix timestamps are decided in halves that meet at the decimal text: DECODING (HJUnixDec) - every canonical decimal text of d digits (quick: 10/13/14/16/19 digits; thorough: every d in 1..19, both signs, all four units) decodes to exactly the instant of that many units; ENCODING (HJUnixEnc) - for every int64 v of the class the instant's unit count is v and Encode<Unit> writes exactly the bytes jx writes for that count (quick: 10/13/14/16/19 digits; thorough: every class, i.e. every int64, all units); that jx's number writer (third-party, packed three-digit table) writes strconv's decimal text (HJNumText) is decided for values of 6, 10 and (thorough) 13 digits and NOT beyond (solver unknown at the cap)",
 "assumptions": ["the process's local time zone is UTC (time.initLocal is modelled as leaving the empty Location, which package time treats as UTC; the native replay runs with TZ=UTC)", "time.Date / time.Unix are the reference constructors for 'the instant a text denotes' (Go standard library; executed from SSA like everything else, not re-proved against a second calendar except through the composition checks)", "strconv's digit-pair table smallsString, jx/uuid hex tables: replaced by arithmetic closed forms only after the closed form was checked against EVERY entry of the real table (verified table summary)", "unique.Make (netip zone interning) modelled as interning by value", "queries with wide division/remainder go first through the engine's integer translation (bit-vector to Int with interval-justified mod elimination, self-checked on every query against the bit-vector evaluator and differentially validated against the bit-vector solvers on ~5000 small queries), then cvc5 --solve-bv-as-int=sum, then z3 5.1 / z3 4.8.12 bit-blasting"],
 "out_of_claim": "that the third-party jx number WRITER produces the canonical decimal text for values of 14..19 digits (solver unknown at the cap; ogen's own part of the number-form unix encoding, the decoding half, the string forms and the conv pairs are decided at full width); float32/float64 (shortest-decimal algorithms, FP theory), fractional seconds and custom time layouts, date-times with a symbolic zone offset on the ENCODING side (offsets are concrete case parameters there), duration DECODING and conv's duration pair (time.ParseDuration scales fractions in float64), URL, IPv6 addresses outside the six listed shapes, zoned addresses, big.* - not decided by this check"
}
json.dump(spec, open(os.path.join(os.path.dirname(__file__), "check.json"), "w"), indent=0)
