package PKGNAME

// C15 harness, third spec (requests3.yml): the SECURITY stage of request handling. Operation getSec requires
// (apiKey header X-K1 AND apiKey query k2) OR bearer; getOpen overrides with no requirement. Hand-built requests with
// symbolic credential presence and texts, a symbolic verdict of the SecurityHandler per scheme (accept / skip) and a
// symbolic path argument text: the handler is reached exactly when some alternative is fully presented and accepted
// and the path argument is an integer; a request that fails the security stage is answered 401 (400 is also allowed
// when the path argument is malformed as well), exactly one response is written, nothing panics.

import (
	"context"
	"net/http"
	"net/url"

	"github.com/ogen-go/ogen/ogenerrors"

	zz "github.com/ogen-go/ogen/internal/zzverif"
)

type zzRec153 struct {
	header http.Header
	status int
	writes int
}

func (r *zzRec153) Header() http.Header { return r.header }
func (r *zzRec153) Write(b []byte) (int, error) {
	if r.status == 0 {
		r.status = 200
		r.writes++
	}
	return len(b), nil
}
func (r *zzRec153) WriteHeader(s int) {
	r.writes++
	if r.status == 0 {
		r.status = s
	}
}

type zzH153 struct {
	calls int
	id    int
}

func (h *zzH153) GetSec(ctx context.Context, params GetSecParams) error {
	h.calls++
	h.id = params.ID
	return nil
}
func (h *zzH153) GetOpen(ctx context.Context) error {
	h.calls++
	return nil
}

type zzSec153 struct {
	skip  [3]bool // verdict per scheme: false accept, true ErrSkipServerSecurity
	calls [3]int
	k1    string
	k2    string
	tok   string
}

func (z *zzSec153) verdict(ctx context.Context, i int) (context.Context, error) {
	z.calls[i]++
	if z.skip[i] {
		return ctx, ogenerrors.ErrSkipServerSecurity
	}
	return ctx, nil
}
func (z *zzSec153) HandleK1(ctx context.Context, op OperationName, t K1) (context.Context, error) {
	z.k1 = t.APIKey
	return z.verdict(ctx, 0)
}
func (z *zzSec153) HandleK2(ctx context.Context, op OperationName, t K2) (context.Context, error) {
	z.k2 = t.APIKey
	return z.verdict(ctx, 1)
}
func (z *zzSec153) HandleB(ctx context.Context, op OperationName, t B) (context.Context, error) {
	z.tok = t.Token
	return z.verdict(ctx, 2)
}

func zzVisible153(c byte) bool {
	return zz.And(zz.And(c > 0x20, c < 0x7f), zz.And(zz.And(c != '&', c != '='), zz.And(zz.And(c != '%', c != '+'), zz.And(c != ';', c != '#'))))
}

// HSec15: open == 0: getSec, open != 0: getOpen (no requirement: credentials and verdicts must not matter).
func HSec15(open int) {
	h := &zzH153{}
	sec := &zzSec153{}
	srv, err := NewServer(h, sec)
	if err != nil {
		panic(err)
	}
	hdr := http.Header{}
	has1, has2, hasB := zz.Bool(), zz.Bool(), zz.Bool()
	c1, c2, cb := zz.Byte(), zz.Byte(), zz.Byte()
	zz.Assume(zz.And(zzVisible153(c1), zz.And(zzVisible153(c2), zzVisible153(cb))))
	if has1 {
		hdr["X-K1"] = []string{string([]byte{c1})}
	}
	q := ""
	if has2 {
		q = "k2=" + string([]byte{c2})
	}
	if hasB {
		hdr["Authorization"] = []string{"Bearer " + string([]byte{cb})}
	}
	for i := range sec.skip {
		sec.skip[i] = zz.Bool()
	}
	idc := zz.Byte() // the path argument: one arbitrary visible byte
	zz.Assume(zz.And(zz.And(idc > 0x20, idc < 0x7f), zz.And(idc != '/', zz.And(idc != '%', idc != '?'))))
	idOK := zz.And(idc >= '0', idc <= '9')
	path := "/sec/" + string([]byte{idc})
	if open != 0 {
		path = "/open"
	}
	rec := &zzRec153{header: http.Header{}}
	srv.ServeHTTP(rec, &http.Request{Method: "GET", URL: &url.URL{Path: path, RawQuery: q}, Header: hdr})
	zz.Assert(rec.writes == 1, "exactly one response is written (security stage)")
	if open != 0 {
		zz.Cover("open-operation")
		zz.Assert(h.calls == 1 && rec.status == 200, "an operation that overrides security with no requirement is served whatever credentials are sent")
		zz.Assert(sec.calls[0]+sec.calls[1]+sec.calls[2] == 0, "no security scheme is consulted for an operation without requirement")
		return
	}
	ok1 := zz.And(has1, zz.Not(sec.skip[0]))
	ok2 := zz.And(has2, zz.Not(sec.skip[1]))
	okB := zz.And(hasB, zz.Not(sec.skip[2]))
	satisfied := zz.Or(zz.And(ok1, ok2), okB)
	if h.calls > 0 {
		zz.Cover("secured-handler-ran")
		zz.Assert(h.calls == 1, "the handler runs once (security stage)")
		zz.Assert(satisfied, "the handler of a secured operation runs only when an alternative is fully presented and accepted")
		zz.Assert(idOK, "a request whose path argument is not an integer never reaches the handler")
		zz.Assert(h.id == int(idc-'0'), "the handler receives the path argument of the request")
		if has1 && sec.calls[0] > 0 {
			zz.Assert(len(sec.k1) == 1 && sec.k1[0] == c1, "the security handler sees the header key that was sent")
		}
		if has2 && sec.calls[1] > 0 {
			zz.Assert(len(sec.k2) == 1 && sec.k2[0] == c2, "the security handler sees the query key that was sent")
		}
		if hasB && sec.calls[2] > 0 {
			zz.Assert(len(sec.tok) == 1 && sec.tok[0] == cb, "the security handler sees the bearer token that was sent")
		}
	} else {
		zz.Cover("secured-handler-refused")
		zz.Assert(zz.Not(zz.And(satisfied, idOK)), "a request that presents an accepted alternative and a well-formed argument reaches the handler")
		if satisfied {
			zz.Assert(rec.status == 400, "a malformed path argument behind satisfied security is answered 400")
		} else {
			zz.Assert(zz.Or(rec.status == 401, zz.And(rec.status == 400, zz.Not(idOK))), "a request that fails the security stage is answered 401")
		}
	}
}
