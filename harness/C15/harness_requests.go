package PKGNAME

// C15 harness (in the generated package for C01's exchange.yml): hand-built *http.Request values that
// bypass net/http's validation - symbolic method, Path/RawPath, query, header, cookie, content type and
// body bytes - against the generated server with recording handler / error handler.

import (
	"bytes"
	"context"
	"io"
	"net/http"
	"net/url"

	zz "github.com/ogen-go/ogen/internal/zzverif"
	"github.com/ogen-go/ogen/ogenerrors"
)

type zzRec15 struct {
	header http.Header
	status int
	writes int
}

func (r *zzRec15) Header() http.Header { return r.header }
func (r *zzRec15) Write(b []byte) (int, error) {
	if r.status == 0 {
		r.status = 200
		r.writes++
	}
	return len(b), nil
}
func (r *zzRec15) WriteHeader(s int) {
	r.writes++
	if r.status == 0 {
		r.status = s
	}
}

type zzH15 struct {
	calls   int
	outcome int // 0 ok, 1 plain error
	in      *In
}

var errZZ15 = io.ErrClosedPipe

func (h *zzH15) GetP(ctx context.Context, params GetPParams) (GetPRes, error) {
	h.calls++
	if h.outcome == 1 {
		return nil, errZZ15
	}
	return &OutHeaders{Response: Out{V: "r"}}, nil
}
func (h *zzH15) GetM(ctx context.Context, params GetMParams) error {
	h.calls++
	if h.outcome == 1 {
		return errZZ15
	}
	return nil
}
func (h *zzH15) PostB(ctx context.Context, req *In) (PostBRes, error) {
	h.calls++
	h.in = req
	if h.outcome == 1 {
		return nil, errZZ15
	}
	return &PostBCreated{}, nil
}

type zzStage struct {
	kind string // "", "params", "body", "other"
}

func zzServer15(h *zzH15, st *zzStage) *Server {
	eh := func(ctx context.Context, w http.ResponseWriter, r *http.Request, err error) {
		var (
			pe *ogenerrors.DecodeParamsError
			be *ogenerrors.DecodeRequestError
		)
		switch {
		case asErr(err, &pe):
			st.kind = "params"
		case asErr(err, &be):
			st.kind = "body"
		default:
			st.kind = "other"
		}
		ogenerrors.DefaultErrorHandler(ctx, w, r, err)
	}
	s, err := NewServer(h, WithErrorHandler(eh))
	if err != nil {
		panic(err)
	}
	return s
}

var zzMethods15 = []string{"GET", "POST", "PUT", "DELETE", "OPTIONS", ""}

// HRoute15: arbitrary method x arbitrary path (and RawPath): exactly one response, 404/405 without
// reaching a handler unless the router dispatched.
func HRoute15(methodIdx, n, raw int) {
	h, st := &zzH15{}, &zzStage{}
	s := zzServer15(h, st)
	p := zz.String(n)
	u := &url.URL{Path: p}
	if raw != 0 {
		u.RawPath = zz.String(n)
	}
	rec := &zzRec15{header: http.Header{}}
	s.ServeHTTP(rec, &http.Request{Method: zzMethods15[methodIdx], URL: u, Header: http.Header{}, Body: http.NoBody})
	zz.Assert(rec.writes == 1, "exactly one response is written")
	if h.calls == 0 {
		zz.Cover("no-handler")
		zz.Assert(rec.status == 404 || rec.status == 405 || rec.status == 400 || rec.status == 204, "a request that reaches no handler is answered 404/405 (or 400 when parameter decoding fails; 204 for OPTIONS)")
	} else if h.calls != 1 {
		zz.Fail("more than one handler ran for one request")
	}
}

// HParams15: the getP operation with symbolic raw query / header / cookie texts: a parameter-stage failure
// answers 400 without the handler; a handler failure answers 500.
func HParams15(nq, nh, outcome int) {
	h, st := &zzH15{outcome: outcome}, &zzStage{}
	s := zzServer15(h, st)
	hd := http.Header{}
	if nh >= 0 {
		hd["Cookie"] = []string{zz.String(nh)}
		hd["X-H"] = []string{zz.String(nh)}
	}
	u := &url.URL{Path: "/p/x/" + zz.String(1), RawQuery: zz.String(nq)}
	rec := &zzRec15{header: http.Header{}}
	s.ServeHTTP(rec, &http.Request{Method: "GET", URL: u, Header: hd, Body: http.NoBody})
	zz.Assert(rec.writes == 1, "exactly one response is written (params)")
	switch {
	case st.kind == "params":
		zz.Cover("params-stage-failed")
		zz.Assert(h.calls == 0 && rec.status == 400, "a request that fails parameter decoding is answered 400 and never reaches the handler")
	case h.calls == 1 && outcome == 1:
		zz.Cover("handler-failed")
		zz.Assert(rec.status == 500, "a handler failure surfaces as 500")
	case h.calls == 1:
		zz.Cover("handler-succeeded")
		zz.Assert(rec.status == 200, "a successful handler's response is written")
	default:
		zz.Assert(rec.status == 404 || rec.status == 405, "a request that is not routed is answered 404/405")
	}
}

// refJSONObjectWithA: independent recogniser for the bodies this harness builds: `{"a":<digits>}` exactly
// (optionally followed by spaces) is the only accepted shape among them.
func isDigit(c byte) bool { return zz.And(c >= '0', c <= '9') }

// HBody15: POST /b with symbolic content type choice and body bytes (a valid skeleton with a corrupted
// window, truncated, or with trailing data).
func HBody15(ct, shape, k int) {
	h, st := &zzH15{}, &zzStage{}
	s := zzServer15(h, st)
	var body []byte
	valid := false
	switch shape {
	case 0: // {"a":D} with symbolic digit
		d := zz.Byte()
		body = []byte(`{"a":` + string([]byte{d}) + `}`)
		valid = isDigit(d)
	case 1: // window of k symbolic bytes overwrites the start of a valid body
		body = []byte(`{"a":1,"s":"x"}`)
		w := zz.Bytes(k)
		copy(body, w)
		valid = false // decided by the reference only for the untouched text; see assertion below
	case 2: // truncated
		body = []byte(`{"a":1,"s":"x"}`)[:k]
	case 3: // trailing data after a complete value
		body = append([]byte(`{"a":1}`), zz.Bytes(k)...)
	case 4: // required member missing / wrong type / null
		body = [][]byte{[]byte(`{}`), []byte(`{"a":"1"}`), []byte(`{"a":null}`), []byte(`{"s":"x"}`), []byte(`[]`), []byte(`null`)}[k%6]
	}
	hd := http.Header{}
	switch ct {
	case 0:
		hd["Content-Type"] = []string{"application/json"}
	case 1:
		hd["Content-Type"] = []string{"application/json; charset=utf-8"}
	case 2:
		hd["Content-Type"] = []string{"text/plain"}
	case 3: // absent
	default:
		hd["Content-Type"] = []string{zz.String(3)}
	}
	rec := &zzRec15{header: http.Header{}}
	req := &http.Request{Method: "POST", URL: &url.URL{Path: "/b"}, Header: hd, Body: io.NopCloser(bytes.NewReader(body)), ContentLength: int64(len(body))}
	s.ServeHTTP(rec, req)
	zz.Assert(rec.writes == 1, "exactly one response is written (body)")
	if st.kind == "body" {
		zz.Cover("body-stage-failed")
		zz.Assert(h.calls == 0 && (rec.status == 400 || rec.status == 415), "a request that fails body decoding is answered 400/415 and never reaches the handler")
	}
	if h.calls > 0 {
		zz.Cover("body-accepted")
		zz.Assert(ct <= 1 || ct == 4, "the handler runs only for a JSON content type")
		switch shape {
		case 0:
			zz.Assert(valid, "a body whose required member is not a JSON number never reaches the handler")
		case 2:
			zz.Assert(k == len(`{"a":1,"s":"x"}`), "a truncated JSON body never reaches the handler")
		case 4:
			zz.Fail("a body without a valid required member reached the handler")
		}
	} else if shape == 0 && ct <= 1 {
		zz.Assert(zz.Not(valid), "a well-formed body with the right content type reaches the handler")
	}
	if shape == 3 && h.calls > 0 {
		// trailing data: only whitespace may follow the value
		ok := true
		for i := len(`{"a":1}`); i < len(body); i++ {
			c := body[i]
			ok = zz.And(ok, zz.Or(zz.Or(c == ' ', c == '\t'), zz.Or(c == '\n', c == '\r')))
		}
		zz.Assert(ok, "a body with trailing non-space data never reaches the handler")
	}
}

// plainQ: a byte that means itself inside a query value (no escape, separator or space spelling)
func plainQ(c byte) bool {
	return zz.And(zz.And(zz.And(c != '%', c != '+'), zz.And(c != '&', c != '=')), zz.And(zz.And(c != ';', c != '#'), zz.And(c > ' ', c < 0x7f)))
}

func allPlainQ(s string) bool {
	ok := true
	for i := 0; i < len(s); i++ {
		ok = zz.And(ok, plainQ(s[i]))
	}
	return ok
}

// isBoolText: the texts a boolean parameter accepts (strconv.ParseBool's set, written out independently)
func isBoolText(s string) bool {
	r := false
	for _, t := range []string{"1", "t", "T", "TRUE", "true", "True", "0", "f", "F", "FALSE", "false", "False"} {
		r = zz.Or(r, zz.EqString(s, t))
	}
	return r
}

// isInt32Text: optional sign and 1..n digits (short texts only, so no range question arises)
func isInt32Text(s string) bool {
	if len(s) == 0 {
		return false
	}
	signed := zz.Or(s[0] == '+', s[0] == '-')
	ok := zz.Or(isDigit(s[0]), zz.And(signed, len(s) > 1))
	for i := 1; i < len(s); i++ {
		ok = zz.And(ok, isDigit(s[i]))
	}
	return ok
}

// HQuery15: structured requests for getP against an independent recogniser of what its parameters accept:
// the handler is reached exactly for well-formed requests; duplicate, missing and mistyped parameters are
// answered 400 without the handler.
func HQuery15(shape, k int) {
	h, st := &zzH15{}, &zzStage{}
	s := zzServer15(h, st)
	path, query := "/p/x/1", ""
	var accept bool
	decided := true
	switch shape {
	case 0: // required boolean with an arbitrary text
		v := zz.String(k)
		zz.Assume(allPlainQ(v))
		query = "b=" + v
		accept = isBoolText(v)
	case 1: // required parameter missing, an optional one present
		v := zz.String(k)
		zz.Assume(allPlainQ(v))
		query = "q=" + v
		accept = false
	case 2: // required primitive given twice
		v := zz.String(k)
		zz.Assume(allPlainQ(v))
		query = "b=true&b=" + v
		accept = false
	case 3: // optional primitive given twice
		v, w := zz.String(k), zz.String(k)
		zz.Assume(zz.And(allPlainQ(v), allPlainQ(w)))
		query = "b=1&q=" + v + "&q=" + w
		accept = false
	case 4: // defaulted optional primitive given twice
		v := zz.String(k)
		zz.Assume(allPlainQ(v))
		query = "qd=" + v + "&b=0&qd=" + v
		accept = false
	case 5: // integer path parameter with an arbitrary text
		v := zz.String(k)
		for i := 0; i < len(v); i++ {
			zz.Assume(zz.And(zz.And(v[i] != '/', v[i] != '%'), zz.And(v[i] > ' ', v[i] < 0x7f)))
		}
		path, query = "/p/x/"+v, "b=true"
		accept = isInt32Text(v)
	case 6: // arrays may repeat (exploded) and optional parameters may be absent: accepted
		v, w := zz.String(k), zz.String(k)
		zz.Assume(zz.And(allPlainQ(v), allPlainQ(w)))
		query = "qa=" + v + "&b=false&qa=" + w
		accept = true
	case 7: // unknown parameters are ignored, also when repeated
		v := zz.String(k)
		zz.Assume(allPlainQ(v))
		query = "zz=" + v + "&b=T&zz=" + v
		accept = true
	default:
		decided = false
	}
	rec := &zzRec15{header: http.Header{}}
	s.ServeHTTP(rec, &http.Request{Method: "GET", URL: &url.URL{Path: path, RawQuery: query}, Header: http.Header{}, Body: http.NoBody})
	zz.Assert(rec.writes == 1, "exactly one response is written (query)")
	if !decided {
		return
	}
	if h.calls > 0 {
		zz.Cover("query-accepted")
		zz.Assert(accept, "a request with a duplicate, missing or mistyped parameter never reaches the handler")
		zz.Assert(rec.status == 200, "an accepted request gets the handler's response")
	} else {
		zz.Cover("query-refused")
		zz.Assert(zz.Not(accept), "a well-formed request reaches the handler")
		zz.Assert(rec.status == 400, "a request refused at the parameter stage is answered 400")
	}
}

func asErr[T error](err error, target *T) bool {
	for err != nil {
		if t, ok := err.(T); ok {
			*target = t
			return true
		}
		u, ok := err.(interface{ Unwrap() error })
		if !ok {
			return false
		}
		err = u.Unwrap()
	}
	return false
}
