package PKGNAME

// C15 harness, second spec (requests2.yml): a ranged request media type (image/*), an OPTIONAL JSON request
// body, and runtime-status error responses (5XX pattern, default) returned by the handler.

import (
	"bytes"
	"context"
	"io"
	"net/http"
	"net/url"

	zz "github.com/ogen-go/ogen/internal/zzverif"
)

type zzRec152 struct {
	header http.Header
	status int
	writes int // number of status lines written (explicit WriteHeader calls + one implicit by the first Write)
	body   []byte
}

func (r *zzRec152) Header() http.Header { return r.header }
func (r *zzRec152) Write(b []byte) (int, error) {
	if r.status == 0 {
		r.status = 200
		r.writes++
	}
	r.body = append(r.body, b...)
	return len(b), nil
}
func (r *zzRec152) WriteHeader(s int) {
	r.writes++
	if r.status == 0 {
		r.status = s
	}
}

type zzH152 struct {
	calls  int
	optSet bool
	optA   int
	res    GetStRes
}

func (h *zzH152) GetSt(ctx context.Context) (GetStRes, error) {
	h.calls++
	return h.res, nil
}
func (h *zzH152) PostImg(ctx context.Context, req *PostImgReqWithContentType) error {
	h.calls++
	return nil
}
func (h *zzH152) PostOpt(ctx context.Context, req OptIn2) error {
	h.calls++
	h.optSet = req.Set
	h.optA = req.Value.A
	return nil
}

func zzServer152(h *zzH152) *Server {
	s, err := NewServer(h)
	if err != nil {
		panic(err)
	}
	return s
}

// isTokenByte: RFC 7230 tchar (what a media type's type and subtype are made of)
func isTokenByte(c byte) bool {
	alnum := zz.Or(zz.Or(zz.And(c >= 'a', c <= 'z'), zz.And(c >= 'A', c <= 'Z')), zz.And(c >= '0', c <= '9'))
	p := false
	for _, x := range []byte("!#$%&'*+-.^_`|~") {
		p = zz.Or(p, c == x)
	}
	return zz.Or(alnum, p)
}

// HCT15: operation postImg accepts exactly the media types whose TYPE is "image".
// kind 0: "image" + n arbitrary bytes + "/png"; kind 1: n arbitrary bytes + "image/png"; kind 2: "imag" + n bytes
// (no slash guaranteed); kind 3: "image/" + n arbitrary bytes as the subtype.
func HCT15(kind, n int) {
	h := &zzH152{}
	s := zzServer152(h)
	x := zz.String(n)
	var ct string
	var accept bool
	switch kind {
	case 0:
		ct = "image" + x + "/png"
		accept = n == 0
	case 1:
		ct = x + "image/png"
		accept = n == 0
	case 2:
		ct = "imag" + x
		accept = false
		if n >= 3 { // "image/p": only when the text completes the type, a slash and a non-empty token
			accept = zz.And(zz.And(x[0] == 'e', x[1] == '/'), true)
			for i := 2; i < n; i++ {
				accept = zz.And(accept, isTokenByte(x[i]))
			}
		}
		// texts with white space, ';' parameters or upper-case letters have their own reading: keep to plain bytes
		for i := 0; i < n; i++ {
			zz.Assume(zz.Or(isTokenByte(x[i]), x[i] == '/'))
			zz.Assume(zz.Not(zz.And(x[i] >= 'A', x[i] <= 'Z')))
		}
	default:
		// the subtype: every token must be accepted; what a server does with a subtype that is not a token is
		// not fixed by the property, so only well-formed subtypes are driven
		ct = "image/" + x
		accept = n > 0
		for i := 0; i < n; i++ {
			zz.Assume(isTokenByte(x[i]))
			zz.Assume(zz.Not(zz.And(x[i] >= 'A', x[i] <= 'Z')))
		}
	}
	if kind <= 1 {
		for i := 0; i < n; i++ { // plain bytes only (no separators that start parameters, no white space, no upper case)
			zz.Assume(zz.Or(isTokenByte(x[i]), x[i] == '/'))
			zz.Assume(zz.Not(zz.And(x[i] >= 'A', x[i] <= 'Z')))
		}
	}
	body := []byte("PNG")
	rec := &zzRec152{header: http.Header{}}
	req := &http.Request{Method: "POST", URL: &url.URL{Path: "/img"}, Header: http.Header{"Content-Type": []string{ct}}, Body: io.NopCloser(bytes.NewReader(body)), ContentLength: int64(len(body))}
	s.ServeHTTP(rec, req)
	zz.Assert(rec.writes == 1, "exactly one response is written (content type)")
	if h.calls > 0 {
		zz.Cover("ct-accepted")
		zz.Assert(accept, "a request whose media type is not of type image never reaches the image/* operation")
	} else {
		zz.Cover("ct-refused")
		zz.Assert(zz.Not(accept), "a request with an image/<subtype> media type reaches the image/* operation")
		zz.Assert(rec.status == 415 || rec.status == 400, "a request refused for its content type is answered 415 (or 400)")
	}
}

// HOptBody15: operation postOpt has an OPTIONAL JSON body. clen: 0 declared empty, 1 declared length, 2 unknown
// length (-1, chunked); ct: 0 absent, 1 application/json; body: 0 empty, 1 valid {"a":D}, 2 garbage byte.
func HOptBody15(clen, ct, body int) {
	h := &zzH152{}
	s := zzServer152(h)
	var b []byte
	d := byte('0')
	switch body {
	case 1:
		d = zz.Byte()
		zz.Assume(zz.And(d >= '0', d <= '9'))
		b = []byte(`{"a":` + string([]byte{d}) + `}`)
	case 2:
		g := zz.Byte()
		zz.Assume(zz.And(zz.And(g != ' ', g != '\t'), zz.And(g != '\n', g != '\r')))
		b = []byte{g}
	}
	if clen == 0 && len(b) > 0 {
		return // a declared-empty request with bytes is not a request net/http would hand over
	}
	hd := http.Header{}
	if ct == 1 {
		hd["Content-Type"] = []string{"application/json"}
	}
	var rd io.ReadCloser = http.NoBody
	if len(b) > 0 || clen == 2 {
		rd = io.NopCloser(bytes.NewReader(b))
	}
	cl := int64(len(b))
	if clen == 2 {
		cl = -1
	}
	rec := &zzRec152{header: http.Header{}}
	s.ServeHTTP(rec, &http.Request{Method: "POST", URL: &url.URL{Path: "/opt"}, Header: hd, Body: rd, ContentLength: cl})
	zz.Assert(rec.writes == 1, "exactly one response is written (optional body)")
	if h.calls > 0 {
		zz.Cover("optbody-handler-ran")
		// the handler may run without a body only when there are no body bytes, and with a body only when the
		// content type is JSON and the text is valid
		if len(b) == 0 {
			zz.Assert(!h.optSet, "an absent optional body reaches the handler as unset")
		} else {
			zz.Assert(ct == 1 && body == 1, "body bytes with a missing content type, or an invalid body, never reach the handler")
			zz.Assert(h.optSet && h.optA == int(d-'0'), "a valid optional body reaches the handler with its value")
		}
	} else {
		zz.Cover("optbody-refused")
		zz.Assert(rec.status == 400 || rec.status == 415, "a request refused at the body stage is answered 400/415")
		// (with an unknown length the server cannot tell an empty body without reading it: no claim there)
		zz.Assert(!(len(b) == 0 && ct == 0 && clen != 2), "a request without body and without content type reaches the handler of an operation whose body is optional")
		zz.Assert(!(ct == 1 && body == 1), "a valid JSON body reaches the handler")
	}
}

// HStatus15: the handler answers with a runtime-status variant (5XX pattern with a symbolic code, default with
// codes outside the declared ones): exactly one response with that status.
func HStatus15(kind int) {
	h := &zzH152{}
	s := zzServer152(h)
	code := 0
	switch kind {
	case 0:
		code = zz.IntRange(500, 503) + 96*zz.IntRange(0, 1) // 500..503, 596..599
		h.res = &E5StatusCode{StatusCode: code, Response: E5{M: "m"}}
	case 1:
		code = []int{201, 302, 404, 499}[zz.IntRange(0, 3)]
		h.res = &EDStatusCode{StatusCode: code, Response: ED{E: "e"}}
	default:
		code = 200
		h.res = &GetStOK{}
	}
	rec := &zzRec152{header: http.Header{}}
	s.ServeHTTP(rec, &http.Request{Method: "GET", URL: &url.URL{Path: "/st"}, Header: http.Header{}, Body: http.NoBody})
	zz.Cover("status-variant-returned")
	zz.Assert(h.calls == 1, "the handler ran once")
	zz.Assert(rec.writes == 1, "exactly one response is written when the handler returns a runtime-status variant")
	zz.Assert(rec.status == code, "the response carries the status code of the variant the handler returned")
	// one JSON document, not two
	depth, docs := 0, 0
	for _, c := range rec.body {
		if c == '{' {
			if depth == 0 {
				docs++
			}
			depth++
		} else if c == '}' {
			depth--
		}
	}
	zz.Assert(docs <= 1, "the response body is one document")
}
