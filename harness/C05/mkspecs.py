#!/usr/bin/env python3
"""Route-set driver for C05: writes OpenAPI specs over a small segment grammar, the per-package
template data (Go) the harness's reference matcher reads, and the case lists. Sets the generator
rejects are reported by genrun and skipped (the property is about accepted sets)."""
import sys, json, random, itertools, re

tier = sys.argv[1] if len(sys.argv) > 1 else "quick"
seed = int(sys.argv[2]) if len(sys.argv) > 2 else 0
rng = random.Random(1000 + seed)

STATICS = ["a", "b", "ab"]
PARAM_FORMS = ["{x}", "a{x}", "{x}.j", "{x}-{y}"]

def seg_choices():
    return STATICS + PARAM_FORMS

def mk_template(segs):
    # rename parameters uniquely: x1, x2, ...
    out, n = [], 0
    for s in segs:
        def repl(m):
            nonlocal n
            n += 1
            return "{p%d}" % n
        out.append(re.sub(r"\{[a-z]\}", repl, s))
    return "/" + "/".join(out)

CURATED = [
    # param vs static siblings, prefix templates, two params in one segment, mid-segment param
    [("/a/{p1}", ["GET", "POST"]), ("/a/b", ["GET"]), ("/c/{p1}.j/{p2}", ["GET"])],
    [("/a", ["GET"]), ("/a/{p1}", ["GET"]), ("/a/{p1}/b", ["POST"]), ("/ab", ["GET"])],
    [("/{p1}", ["GET"]), ("/a", ["POST"]), ("/a/b", ["GET"])],
    [("/a/{p1}-{p2}", ["GET"]), ("/a/b-c", ["GET"]), ("/a/{p1}-{p2}/b", ["POST"])],
    [("/a/b/{p1}", ["GET"]), ("/a/{p1}/b", ["GET"]), ("/a/b/ab", ["POST"])],
    [("/ab/{p1}", ["GET"]), ("/a/{p1}", ["GET"]), ("/a{p1}", ["POST"])],
    # issue-1161-like: static sibling sharing a prefix with what the parameter may hold
    [("/a/{p1}/b", ["GET"]), ("/a/ab/a", ["GET"]), ("/a/{p1}", ["POST"])],
    # node with routes AND only parameter children (trailing-slash template next to a parameter)
    [("/a/", ["GET", "POST"]), ("/a/{p1}", ["GET"]), ("/b", ["GET"])],
    [("/a/b/", ["POST"]), ("/a/b/{p1}", ["GET", "POST"]), ("/a/b", ["GET"])],
    # sample.json-like multi-parameter template
    [("/n/{p1}.{p2}.j", ["GET"]), ("/n/{p1}", ["POST"]), ("/n/a.b.j", ["GET"])],
    # static text outside ASCII (multi-byte UTF-8 in the template)
    [("/\u00e9/{p1}", ["GET"]), ("/\u00e8", ["GET", "POST"]), ("/{p1}/\u00e9", ["POST"])],
]

def random_set():
    k = rng.randint(2, 4)
    tmpls = {}
    base = [rng.choice(seg_choices())]
    tries = 0
    while len(tmpls) < k and tries < 50:
        tries += 1
        nseg = rng.randint(1, 3)
        segs = []
        for i in range(nseg):
            if i == 0 and rng.random() < 0.6:
                segs.append(base[0])
            else:
                segs.append(rng.choice(seg_choices()))
        t = mk_template(segs)
        if t in tmpls:
            continue
        methods = rng.choice([["GET"], ["POST"], ["GET", "POST"]])
        tmpls[t] = methods
    return list(tmpls.items())

def parts_of(t):
    parts = []
    for m in re.finditer(r"\{(\w+)\}|[^{}]+", t):
        if m.group(1):
            parts.append(("", m.group(1)))
        else:
            parts.append((m.group(0), ""))
    return parts

def op_name(i, method):
    return "Op%d%s" % (i, method.capitalize())

def spec_for(routes):
    lines = ["openapi: 3.0.3", "info: {title: t, version: '1'}", "paths:"]
    for i, (t, methods) in enumerate(routes):
        lines.append("  %s:" % json.dumps(t))
        params = [p for (_, p) in parts_of(t) if p]
        for m in methods:
            lines.append("    %s:" % m.lower())
            lines.append("      operationId: %s" % op_name(i, m))
            if params:
                lines.append("      parameters:")
                for p in params:
                    lines.append("        - {name: %s, in: path, required: true, schema: {type: string}}" % p)
            lines.append("      responses: {'200': {description: ok}}")
    return "\n".join(lines) + "\n"

def data_go(routes):
    tail = set("/")
    for (t, _) in routes:
        ps = parts_of(t)
        for i, (st, pa) in enumerate(ps):
            if pa and i + 1 < len(ps) and ps[i + 1][0]:
                tail.add(ps[i + 1][0][0])
    out = ["package PKGNAME", "", "var zzTailSet = %s" % json.dumps("".join(sorted(tail))), "", "var zzTemplates = []zzTemplate{"]
    for i, (t, methods) in enumerate(routes):
        parts = ", ".join("{Static: %s, Param: %s}" % (json.dumps(s), json.dumps(p)) for (s, p) in parts_of(t))
        ms = ", ".join("%s: %s" % (json.dumps(m), json.dumps(op_name(i, m))) for m in methods)
        allows = [",".join(p) for p in itertools.permutations(methods)]
        out.append("\t{Pattern: %s, Parts: []zzPart{%s}, Methods: map[string]string{%s}, Allows: []string{%s}}," %
                   (json.dumps(t), parts, ms, ", ".join(json.dumps(a) for a in allows)))
    out.append("}")
    return "\n".join(out) + "\n"

nrandom = 10 if tier == "quick" else 60
sets = list(CURATED) + [random_set() for _ in range(nrandom)]
packages, path_cases, inst_cases, raw_cases = [], [], [], []
maxn = 4 if tier == "quick" else 5
for si, routes in enumerate(sets):
    name = "r%d" % si
    packages.append({"name": name, "spec": spec_for(routes), "extra_go": {"data.go": data_go(routes)}, "meta": {"routes": routes}})
    for n in range(0, maxn + (2 if tier != "quick" and si < len(CURATED) else 1)):  # thorough: curated sets one byte longer
        for mi in ((0, 1, 2) if tier == "quick" else (0, 1, 2, 3)):
            path_cases.append([si, n, mi, 0])
        if n <= 3:
            path_cases.append([si, n, 0, 1])
    for ti, (t, methods) in enumerate(routes):
        np = len([1 for (_, p) in parts_of(t) if p])
        for lens in range(3 ** np):
            digits = [(lens // 3 ** k) % 3 for k in range(np)]
            if any(d > 1 for d in digits):
                continue
            for mi in (0, 1):
                inst_cases.append([si, ti, lens, mi])
        if np > 0:
            for rk in range(5):
                for mi in (0, 1):
                    for pi in (0, 1):
                        raw_cases.append([si, ti, rk, mi, pi])
print(json.dumps({
    "packages": packages,
    "cases": {tier: [{"entry": "HPath", "args": path_cases}, {"entry": "HInst", "args": inst_cases}, {"entry": "HRawInst", "args": raw_cases}]},
    "bounds": {"route_sets": "%d curated + %d seeded-random sets over statics a,b,ab and parameter forms {x}, a{x}, {x}.j, {x}-{y}; 1..3 segments, 2..4 templates, methods from GET/POST (VERIF_SEED selects the random part)" % (len(CURATED), nrandom),
               "request_paths": "'/' followed by 0..%d fully symbolic bytes (all 256 values)%s, methods GET/POST/PUT%s, with and without the /api prefix" % (maxn, "" if tier == "quick" else " (0..6 for the curated sets)", "" if tier == "quick" else "/OPTIONS"),
               "escaped": "every template instance whose first argument is written with a percent-escape (%2F, %2f, %41, a%20b, %c3%A9) sent as RawPath+Path, with and without the /api prefix", "instances": "every template instantiated with symbolic argument values of 1..2 bytes that avoid '/' and the set's tail characters"}
}))
