package PKGNAME

// C05 harness (copied into every generated package): the generated router
// (FindPath and ServeHTTP) against a reference matcher built from the path
// templates the driver wrote, for every request path of the case's length and
// for template instances with symbolic argument values.

import (
	"context"
	"net/http"
	"net/url"

	zz "github.com/ogen-go/ogen/internal/zzverif"
	"github.com/ogen-go/ogen/middleware"
)

type zzPart struct {
	Static string // static text, or
	Param  string // parameter name
}

type zzTemplate struct {
	Pattern string
	Parts   []zzPart
	Methods map[string]string // method -> operation name (ogen's Route.Name())
	Allows  []string          // acceptable Allow header texts: the defined methods, comma separated, any order
}

var zzMethods = []string{"GET", "POST", "PUT", "OPTIONS"}

// ---- recording ResponseWriter / middleware

type zzRecorder struct {
	header http.Header
	status int
	writes int
	body   []byte
}

func (r *zzRecorder) Header() http.Header { return r.header }
func (r *zzRecorder) Write(b []byte) (int, error) {
	if r.status == 0 {
		r.status = 200
	}
	r.body = append(r.body, b...)
	return len(b), nil
}
func (r *zzRecorder) WriteHeader(s int) {
	r.writes++
	if r.status == 0 {
		r.status = s
	}
}

type zzSeen struct {
	op     string
	params map[string]string
	calls  int
}

func zzNewServer(prefix string, seen *zzSeen) *Server {
	mw := func(req middleware.Request, next middleware.Next) (middleware.Response, error) {
		seen.calls++
		seen.op = req.OperationName
		seen.params = map[string]string{}
		for k, v := range req.Params {
			if s, ok := v.(string); ok {
				seen.params[k.Name] = s
			}
		}
		return next(req)
	}
	opts := []ServerOption{
		WithMiddleware(mw),
		WithErrorHandler(func(ctx context.Context, w http.ResponseWriter, r *http.Request, err error) {
			w.WriteHeader(599) // marks "request reached the operation's handle function"
		}),
	}
	if prefix != "" {
		opts = append(opts, WithPathPrefix(prefix))
	}
	s, err := NewServer(UnimplementedHandler{}, opts...)
	if err != nil {
		panic(err)
	}
	return s
}

// ---- reference matcher

func containsByte(s string, c byte) bool {
	r := false
	for i := 0; i < len(s); i++ {
		r = zz.Or(r, s[i] == c)
	}
	return r
}

// matchFrom: some choice of argument boundaries makes parts[i:] produce p[pos:].
// strict: arguments are non-empty and contain neither '/' nor a character of the set's tail set
// (the values for which the property promises delivery); otherwise any text (the most liberal reading).
func matchFrom(parts []zzPart, i int, p string, pos int, strict bool) bool {
	if i == len(parts) {
		return pos == len(p)
	}
	pt := parts[i]
	if pt.Param == "" {
		n := len(pt.Static)
		if pos+n > len(p) {
			return false
		}
		if p[pos:pos+n] != pt.Static { // concrete static text vs symbolic bytes: one Bool term
			return false
		}
		return matchFrom(parts, i+1, p, pos+n, strict)
	}
	res := false
	start := pos
	if strict {
		start = pos + 1
	}
	for end := start; end <= len(p); end++ {
		ok := matchFrom(parts, i+1, p, end, strict)
		if strict {
			ok = zz.And(ok, zz.Not(containsByte(p[pos:end], '/')))
			for k := 0; k < len(zzTailSet); k++ {
				ok = zz.And(ok, zz.Not(containsByte(p[pos:end], zzTailSet[k])))
			}
		}
		res = zz.Or(res, ok)
	}
	return res
}

func zzMatches(t zzTemplate, p string, strict bool) bool { return matchFrom(t.Parts, 0, p, 0, strict) }

func zzInstantiate(t zzTemplate, args []string) string {
	out := ""
	k := 0
	for _, pt := range t.Parts {
		if pt.Param == "" {
			out += pt.Static
		} else {
			if k < len(args) {
				out += args[k]
			}
			k++
		}
	}
	return out
}

func zzParamCount(t zzTemplate) int {
	n := 0
	for _, pt := range t.Parts {
		if pt.Param != "" {
			n++
		}
	}
	return n
}

func zzTemplateByOp(name string) (zzTemplate, string, bool) {
	for _, t := range zzTemplates {
		for m, op := range t.Methods {
			if op == name {
				return t, m, true
			}
		}
	}
	return zzTemplate{}, "", false
}

// zzMidSegmentSlash: an argument with '/' that belongs to a parameter followed, in its
// segment, by static text (the region of the recorded finding C05/slash-in-midsegment-arg).
func zzMidSegmentSlash(t zzTemplate, args []string) bool {
	res := false
	k := 0
	for i, pt := range t.Parts {
		if pt.Param == "" {
			continue
		}
		if k < len(args) && i+1 < len(t.Parts) && t.Parts[i+1].Param == "" && t.Parts[i+1].Static[0] != '/' {
			res = zz.Or(res, containsByte(args[k], '/'))
		}
		k++
	}
	return res
}

// zzSetHasMidSegmentParam: some template of the set has a parameter followed by static text inside its
// segment; such a parameter node is cut at its tail characters and may be shared with templates in which
// the parameter is last in its segment.
func zzSetHasMidSegmentParam() bool {
	for _, t := range zzTemplates {
		for i, pt := range t.Parts {
			if pt.Param != "" && i+1 < len(t.Parts) && t.Parts[i+1].Param == "" && t.Parts[i+1].Static[0] != '/' {
				return true
			}
		}
	}
	return false
}

func zzLeafSlash(t zzTemplate, args []string) bool {
	res := false
	k := 0
	for i, pt := range t.Parts {
		if pt.Param == "" {
			continue
		}
		mid := i+1 < len(t.Parts) && t.Parts[i+1].Param == "" && t.Parts[i+1].Static[0] != '/'
		if k < len(args) && !mid {
			res = zz.Or(res, containsByte(args[k], '/'))
		}
		k++
	}
	return res
}

func commonPrefixLen(a, b string) int {
	n := 0
	for n < len(a) && n < len(b) && a[n] == b[n] {
		n++
	}
	return n
}

// zzTokens: a template as a sequence of static bytes and parameter markers (0x100 + part index).
func zzTokens(t zzTemplate) []int {
	var out []int
	for i, pt := range t.Parts {
		if pt.Param != "" {
			out = append(out, 0x100+i)
			continue
		}
		for k := 0; k < len(pt.Static); k++ {
			out = append(out, int(pt.Static[k]))
		}
	}
	return out
}

// matchShadow: parts[i:] produce p[pos:] (most liberal reading) AND the text at which the parameter part
// `target` starts begins with byte c.
func matchShadow(parts []zzPart, i int, p string, pos int, target int, c byte, hit bool) bool {
	if i == len(parts) {
		return zz.And(pos == len(p), hit)
	}
	pt := parts[i]
	if pt.Param == "" {
		n := len(pt.Static)
		if pos+n > len(p) {
			return false
		}
		if p[pos:pos+n] != pt.Static {
			return false
		}
		return matchShadow(parts, i+1, p, pos+n, target, c, hit)
	}
	h := hit
	if i == target {
		h = false
		if pos < len(p) {
			h = p[pos] == c
		}
	}
	res := false
	for end := pos; end <= len(p); end++ {
		res = zz.Or(res, matchShadow(parts, i+1, p, end, target, c, h))
	}
	return res
}

// zzSiblingStatic: some template T (with this method) produces the path - under the most liberal reading -
// and at the point where T and another template T2, read as strings from the start, first differ, T has a
// parameter while T2 continues with static text whose first byte is the byte of the path at which T's
// argument starts, and that static text leads to an inner node of the route tree (T2 has a parameter further
// on, or another template extends T2): the router enters the static sibling branch first and a failure further
// inside leaves it through a `break` that skips the restore. Region of the recorded finding
// C05/static-sibling-shadows-parameter (any depth of the route tree; the defect both loses strict instances
// and, through the missing restore of the remaining text, extracts arguments from the wrong text).
func zzSiblingStatic(method, p string) bool {
	res := false
	for i, t := range zzTemplates {
		if _, ok := t.Methods[method]; !ok {
			continue
		}
		tt := zzTokens(t)
		for j, o := range zzTemplates {
			if i == j {
				continue
			}
			ot := zzTokens(o)
			d := 0
			for d < len(tt) && d < len(ot) && (tt[d] == ot[d] || (tt[d] >= 0x100 && ot[d] >= 0x100)) {
				d++
			}
			if d < len(tt) && d < len(ot) && tt[d] >= 0x100 && ot[d] < 0x100 {
				// the static sibling must lead to an inner node: a static LEAF sibling (T2 ends in that static
				// text and nothing extends it) is backed out of correctly and is not part of the finding
				inner := false
				for k := d; k < len(ot); k++ {
					if ot[k] >= 0x100 {
						inner = true
					}
				}
				for l, o2 := range zzTemplates {
					if l == j {
						continue
					}
					t2 := zzTokens(o2)
					if len(t2) > len(ot) {
						same := true
						for k := range ot {
							if !(t2[k] == ot[k] || (t2[k] >= 0x100 && ot[k] >= 0x100)) {
								same = false
							}
						}
						if same {
							inner = true
						}
					}
				}
				if inner {
					res = zz.Or(res, matchShadow(t.Parts, 0, p, 0, tt[d]-0x100, byte(ot[d]), false))
				}
			}
		}
	}
	return res
}

// checkRequest runs FindPath and ServeHTTP on (method, prefix+p) and checks P1, P1', P2, P4, P5.
// It returns the template FindPath chose (index, -1 if none).
func checkRequest(method, prefix, p string) int {
	seen := &zzSeen{}
	s := zzNewServer(prefix, seen)
	full := prefix + p
	route, found := s.FindPath(method, &url.URL{Path: full})
	rec := &zzRecorder{header: http.Header{}}
	s.ServeHTTP(rec, &http.Request{Method: method, URL: &url.URL{Path: full}, Header: http.Header{}})

	// reference facts
	anyLiberal := false
	anyStrictWithMethod := false
	for _, t := range zzTemplates {
		anyLiberal = zz.Or(anyLiberal, zzMatches(t, p, false))
		if _, ok := t.Methods[method]; ok {
			anyStrictWithMethod = zz.Or(anyStrictWithMethod, zzMatches(t, p, true))
		}
	}
	zz.Assert(rec.writes <= 1, "at most one status is written")
	sibling := zzSiblingStatic(method, p)
	chosen := -1
	if found {
		zz.Cover("findpath-found")
		t, m, ok := zzTemplateByOp(route.Name())
		if !ok {
			zz.Fail("FindPath returned an operation the spec does not define")
			return -1
		}
		for i := range zzTemplates {
			if zzTemplates[i].Pattern == t.Pattern {
				chosen = i
			}
		}
		args := route.Args()
		zz.Observe("route", route.Name())
		zz.Observe("pattern", route.PathPattern())
		zz.Observe("args", args)
		zz.Assert(m == method, "P1: a request reaches an operation only if its method matches")
		zz.Assert(len(args) == zzParamCount(t), "P1: one argument per template parameter")
		zz.Known("C05/static-sibling-shadows-parameter", sibling)
		zz.Assert(zz.EqString(zzInstantiate(t, args), p), "P1: the path is the operation's template instantiated with the extracted arguments")
		zz.Known("C05/static-sibling-shadows-parameter", false)
		zz.Known("C05/slash-in-midsegment-arg", zz.Or(zzMidSegmentSlash(t, args), zz.And(zzSetHasMidSegmentParam(), zzLeafSlash(t, args))))
		zz.Assert(zz.Not(zz.Or(zzMidSegmentSlash(t, args), zzLeafSlash(t, args))), "P1': extracted arguments never contain a slash")
		// P2: a fully static template equal to the path beats templated ones
		for _, st := range zzTemplates {
			if zzParamCount(st) == 0 {
				if _, ok := st.Methods[method]; ok {
					zz.Assert(zz.Implies(zz.EqString(st.Pattern, p), t.Pattern == st.Pattern), "P2: a path equal to a fully static template is dispatched to it")
				}
			}
		}
		// P5: serving agrees with the lookup
		nonEmpty := true
		for _, a := range args {
			if len(a) == 0 {
				nonEmpty = false
			}
		}
		if nonEmpty {
			zz.Assert(seen.calls == 1, "P5: ServeHTTP runs the operation FindPath designates")
			if seen.calls == 1 {
				zz.Assert(seen.op == route.Name(), "P5: ServeHTTP and FindPath agree on the operation")
				same := true
				k := 0
				for _, pt := range t.Parts {
					if pt.Param != "" {
						same = zz.And(same, zz.EqString(seen.params[pt.Param], args[k]))
						k++
					}
				}
				zz.Assert(same, "P5: ServeHTTP and FindPath agree on the arguments")
			}
			zz.Assert(rec.status == 599, "P5: the designated operation's handle function answered")
		} else {
			zz.Cover("empty-argument")
			zz.Assert(seen.calls == 0, "an empty path argument never reaches the handler")
		}
	} else {
		zz.Cover("findpath-not-found")
		// P3: a strict instance of a template defining this method is found - unless a matching template
		// that does not define the method takes the request (a more specific known path: 405)
		shadow := false
		for _, t := range zzTemplates {
			if _, ok := t.Methods[method]; !ok {
				shadow = zz.Or(shadow, zzMatches(t, p, false))
			}
		}
		zz.Known("C05/static-sibling-shadows-parameter", sibling)
		zz.Assert(zz.Implies(anyStrictWithMethod, zz.And(shadow, rec.status == 405)), "P3: a path that is a strict instance of a template with this method is found (or a matching template without the method answers 405)")
		zz.Known("C05/static-sibling-shadows-parameter", false)
		zz.Assert(seen.calls == 0, "P5: no handler runs when FindPath finds nothing")
		zz.Known("C05/options-204", method == "OPTIONS")
		switch rec.status {
		case 404:
			zz.Cover("404-answered")
		case 405:
			zz.Cover("405-answered")
			zz.Assert(anyLiberal, "P4: 405 only for a path some template matches")
			allow := rec.header.Get("Allow")
			okAllow := false
			for _, t := range zzTemplates {
				for _, a := range t.Allows {
					okAllow = zz.Or(okAllow, zz.And(zzMatches(t, p, false), allow == a))
				}
			}
			zz.Assert(okAllow, "P4: Allow lists exactly the methods defined for a template matching the path")
		default:
			zz.Fail("P4: a request that reaches no operation is answered 404 or 405")
		}
	}
	if rec.status == 404 {
		// nothing more: 404 for a liberally matching path is allowed only when no strict match exists (asserted above)
	} else {
		zz.Assert(anyLiberal, "P4: a path matching no template under the most liberal reading gets 404")
	}
	return chosen
}

var zzPrefixes = []string{"", "/api"}

// HPath: every request path "/"+B(n) (n symbolic bytes) with the given method and prefix mode.
func HPath(n, methodIdx, prefixIdx int) {
	p := "/" + zz.String(n)
	checkRequest(zzMethods[methodIdx], zzPrefixes[prefixIdx], p)
}

// HInst: instance of template tmpl with symbolic argument values (lens encodes the argument
// lengths, base 3, each 1..2) that avoid '/' and the tail set; P3 completeness.
func HInst(tmpl, lens, methodIdx int) {
	if tmpl >= len(zzTemplates) {
		return
	}
	t := zzTemplates[tmpl]
	method := zzMethods[methodIdx]
	var args []string
	for i := 0; i < zzParamCount(t); i++ {
		l := lens%3 + 1
		lens /= 3
		if l > 2 {
			return
		}
		a := zz.String(l)
		for j := 0; j < len(a); j++ {
			zz.Assume(a[j] != '/')
			for k := 0; k < len(zzTailSet); k++ {
				zz.Assume(a[j] != zzTailSet[k])
			}
		}
		args = append(args, a)
	}
	if lens != 0 {
		return
	}
	p := zzInstantiate(t, args)
	zz.Cover("instance-built")
	chosen := checkRequest(method, "", p)
	if _, ok := t.Methods[method]; !ok {
		return
	}
	// (not reaching any operation is acceptable only when a more specific matching template lacks the method;
	// that case is asserted inside checkRequest: P3 with the 405 clause)
	if chosen >= 0 && chosen != tmpl {
		zz.Cover("instance-went-to-other-template")
		// allowed only when that template matches the path as well (the request is ambiguous; P1 checks that the
		// chosen template really produces it): if T is the only template matching p, the dispatch must be to T
		others := false
		for i, o := range zzTemplates {
			if i != tmpl {
				if _, ok := o.Methods[method]; ok {
					others = zz.Or(others, zzMatches(o, p, false))
				}
			}
		}
		zz.Assert(others, "P3: an instance that only its own template matches is dispatched to that template")
	}
}

var zzRawArgs = [][2]string{{"%2F", "/"}, {"%2f", "/"}, {"%41", "A"}, {"a%20b", "a b"}, {"%c3%A9", "é"}}

// HRawInst: requests whose RawPath carries percent-escapes inside an argument value (the escaped form
// of a template instance); lookup and serving must agree, with and without the path prefix, and deliver
// the decoded value.
func HRawInst(tmpl, rawKind, methodIdx, prefixIdx int) {
	if tmpl >= len(zzTemplates) {
		return
	}
	t := zzTemplates[tmpl]
	if zzParamCount(t) == 0 {
		return
	}
	method := zzMethods[methodIdx]
	if _, ok := t.Methods[method]; !ok {
		return
	}
	prefix := zzPrefixes[prefixIdx]
	raw, dec := []string{}, []string{}
	for i := 0; i < zzParamCount(t); i++ {
		if i == 0 {
			raw = append(raw, zzRawArgs[rawKind][0])
			dec = append(dec, zzRawArgs[rawKind][1])
		} else {
			c := zz.String(1)
			zz.Assume(zz.And(c[0] >= 'k', c[0] <= 'z')) // a plain letter outside the grammar's static alphabet
			raw = append(raw, c)
			dec = append(dec, c)
		}
	}
	u := &url.URL{Path: prefix + zzInstantiate(t, dec), RawPath: prefix + zzInstantiate(t, raw)}
	seen := &zzSeen{}
	s := zzNewServer(prefix, seen)
	route, found := s.FindPath(method, u)
	rec := &zzRecorder{header: http.Header{}}
	s.ServeHTTP(rec, &http.Request{Method: method, URL: u, Header: http.Header{}})
	zz.Cover("raw-instance-requested")
	zz.Observe("found", found)
	zz.Observe("calls", seen.calls)
	zz.Observe("status", rec.status)
	if found {
		zz.Observe("route", route.Name())
		zz.Observe("args", route.Args())
	}
	// the router works on the (normalised) escaped text: an argument whose first byte is static text of a
	// diverging sibling template is inside the recorded static-sibling finding here as well
	zz.Known("C05/static-sibling-shadows-parameter", zz.Or(zzSiblingStatic(method, zzInstantiate(t, dec)), zzSiblingStatic(method, zzInstantiate(t, raw))))
	if prefix != "" {
		// the same request with the PREFIX spelled with a needless escape ("/%61pi" for "/api"): paths that differ
		// only in needless escaping of unreserved characters reach the same operation with the same arguments (C12's
		// consequence for routing, with a configured prefix)
		u2 := &url.URL{Path: u.Path, RawPath: "/%61pi" + zzInstantiate(t, raw)}
		seen2 := &zzSeen{}
		s2 := zzNewServer(prefix, seen2)
		route2, found2 := s2.FindPath(method, u2)
		rec2 := &zzRecorder{header: http.Header{}}
		s2.ServeHTTP(rec2, &http.Request{Method: method, URL: u2, Header: http.Header{}})
		zz.Cover("raw-instance-escaped-prefix")
		zz.Assert(found2 == found && seen2.calls == seen.calls && rec2.status == rec.status, "a needlessly escaped path prefix does not change whether the request is routed and served")
		if found && found2 {
			same := route2.Name() == route.Name() && len(route2.Args()) == len(route.Args())
			if same {
				for i := range route.Args() {
					same = zz.And(same, zz.EqString(route2.Args()[i], route.Args()[i]))
				}
			}
			zz.Assert(same, "a needlessly escaped path prefix does not change the operation or its arguments")
		}
	}
	zz.Assert(found == (seen.calls == 1), "P5 (escaped paths): FindPath finds a route exactly when ServeHTTP runs a handler")
	if !found {
		zz.Known("C05/static-sibling-shadows-parameter", false)
		return
	}
	zz.Assert(seen.op == route.Name(), "P5 (escaped paths): ServeHTTP and FindPath agree on the operation")
	args := route.Args()
	if route.PathPattern() == t.Pattern {
		zz.Cover("raw-instance-reached-its-template")
		zz.Assert(len(args) == len(dec), "P5 (escaped paths): one argument per parameter")
		same := len(args) == len(dec)
		k := 0
		for _, pt := range t.Parts {
			if pt.Param != "" && k < len(args) && k < len(dec) {
				same = zz.And(same, zz.And(zz.EqString(args[k], dec[k]), zz.EqString(seen.params[pt.Param], dec[k])))
				k++
			}
		}
		zz.Assert(same, "escaped paths: lookup and handler both receive the decoded argument values")
	}
	zz.Known("C05/static-sibling-shadows-parameter", false)
}
