package PKGNAME

// C01 harness (in the generated package for exchange.yml): the generated Client calls the generated
// Server in process (loop-back http client: Do(r) = ServeHTTP on a recorder). The handler records what
// it receives and returns a symbolic response; the caller's values are symbolic.

import (
	"bytes"
	"context"
	"io"
	"net/http"

	zz "github.com/ogen-go/ogen/internal/zzverif"
	"github.com/ogen-go/ogen/middleware"
)

type zzRec struct {
	header http.Header
	status int
	writes int
	body   []byte
}

func (r *zzRec) Header() http.Header { return r.header }
func (r *zzRec) Write(b []byte) (int, error) {
	if r.status == 0 {
		r.status = 200
	}
	r.body = append(r.body, b...)
	return len(b), nil
}
func (r *zzRec) WriteHeader(s int) {
	r.writes++
	if r.status == 0 {
		r.status = s
	}
}

type zzLoop struct{ s *Server }

func (l zzLoop) Do(r *http.Request) (*http.Response, error) {
	rec := &zzRec{header: http.Header{}}
	l.s.ServeHTTP(rec, r)
	if rec.status == 0 {
		rec.status = 200
	}
	return &http.Response{StatusCode: rec.status, Header: rec.header, Body: io.NopCloser(bytes.NewReader(rec.body)), ContentLength: int64(len(rec.body)), Request: r}, nil
}

type zzHandler struct {
	calls int
	p     GetPParams
	m     GetMParams
	in    *In
	resP  GetPRes
	resB  PostBRes
}

func (h *zzHandler) GetP(ctx context.Context, params GetPParams) (GetPRes, error) {
	h.calls++
	h.p = params
	return h.resP, nil
}
func (h *zzHandler) GetM(ctx context.Context, params GetMParams) error {
	h.calls++
	h.m = params
	return nil
}
func (h *zzHandler) PostB(ctx context.Context, req *In) (PostBRes, error) {
	h.calls++
	h.in = req
	return h.resB, nil
}

type zzMW struct {
	calls  int
	params middleware.Parameters
	body   any
}

func zzPair(h *zzHandler, mw *zzMW) *Client {
	m := func(req middleware.Request, next middleware.Next) (middleware.Response, error) {
		mw.calls++
		mw.params = req.Params
		mw.body = req.Body
		return next(req)
	}
	s, err := NewServer(h, WithMiddleware(m))
	if err != nil {
		panic(err)
	}
	c, err := NewClient("http://h", WithClient(zzLoop{s}))
	if err != nil {
		panic(err)
	}
	return c
}

func eqStrings(a, b []string) bool {
	if len(a) != len(b) {
		return false
	}
	eq := true
	for i := range a {
		eq = zz.And(eq, zz.EqString(a[i], b[i]))
	}
	return eq
}

func eqOptString(a, b OptString) bool {
	if a.Set != b.Set {
		return false
	}
	if !a.Set {
		return true
	}
	return zz.EqString(a.Value, b.Value)
}

func symStrings(n, l int) []string {
	if n < 0 {
		return nil
	}
	out := []string{}
	for i := 0; i < n; i++ {
		out = append(out, zz.String(l))
	}
	return out
}

func noByte(s string, c byte) bool {
	ok := true
	for i := 0; i < len(s); i++ {
		ok = zz.And(ok, s[i] != c)
	}
	return ok
}

// HGetM: matrix-style scalar and label/explode array in one path with a parameter in mid-segment.
func HGetM(lv, nw, lw int) {
	h, mw := &zzHandler{}, &zzMW{}
	c := zzPair(h, mw)
	p := GetMParams{V: zz.String(lv), W: symStrings(nw, lw)}
	err := c.GetM(context.Background(), p)
	core := lv > 0 && nw > 0 && lw > 0
	coreV := true
	if core {
		for _, it := range p.W {
			coreV = zz.And(coreV, noByte(it, '.'))
		}
	}
	if err != nil {
		zz.Cover("getm-client-error")
		zz.Assert(zz.Not(zz.And(core, coreV)), "core-domain path values are always delivered (GetM)")
		zz.Assert(h.calls == 0 || true, "-")
		return
	}
	zz.Cover("getm-delivered")
	zz.Assert(h.calls == 1, "a successful call ran the handler exactly once (GetM)")
	zz.Assert(zz.And(zz.EqString(h.m.V, p.V), eqStrings(h.m.W, p.W)), "the handler receives exactly the path values the caller supplied (GetM)")
}
