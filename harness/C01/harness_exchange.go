package PKGNAME

// C01 harness (in the generated package for exchange.yml): the generated Client calls the generated
// Server in process (loop-back http client: Do(r) = ServeHTTP on a recorder). The handler records what
// it receives and returns a symbolic response; the caller's values are symbolic.

import (
	"bytes"
	"context"
	"io"
	"net/http"

	zz "github.com/ogen-go/ogen/internal/zzverif"
	"github.com/ogen-go/ogen/middleware"
	"github.com/ogen-go/ogen/openapi"
)

type zzRec struct {
	header http.Header
	status int
	writes int
	body   []byte
}

func (r *zzRec) Header() http.Header { return r.header }
func (r *zzRec) Write(b []byte) (int, error) {
	if r.status == 0 {
		r.status = 200
	}
	r.body = append(r.body, b...)
	return len(b), nil
}
func (r *zzRec) WriteHeader(s int) {
	r.writes++
	if r.status == 0 {
		r.status = s
	}
}

type zzLoop struct{ s *Server }

func (l zzLoop) Do(r *http.Request) (*http.Response, error) {
	rec := &zzRec{header: http.Header{}}
	l.s.ServeHTTP(rec, r)
	if rec.status == 0 {
		rec.status = 200
	}
	return &http.Response{StatusCode: rec.status, Header: rec.header, Body: io.NopCloser(bytes.NewReader(rec.body)), ContentLength: int64(len(rec.body)), Request: r}, nil
}

type zzHandler struct {
	calls int
	p     GetPParams
	m     GetMParams
	in    *In
	resP  GetPRes
	resB  PostBRes
}

func (h *zzHandler) GetP(ctx context.Context, params GetPParams) (GetPRes, error) {
	h.calls++
	h.p = params
	return h.resP, nil
}
func (h *zzHandler) GetM(ctx context.Context, params GetMParams) error {
	h.calls++
	h.m = params
	return nil
}
func (h *zzHandler) PostB(ctx context.Context, req *In) (PostBRes, error) {
	h.calls++
	h.in = req
	return h.resB, nil
}

type zzMW struct {
	calls  int
	params middleware.Parameters
	body   any
}

func zzPair(h *zzHandler, mw *zzMW) *Client {
	m := func(req middleware.Request, next middleware.Next) (middleware.Response, error) {
		mw.calls++
		mw.params = req.Params
		mw.body = req.Body
		return next(req)
	}
	s, err := NewServer(h, WithMiddleware(m))
	if err != nil {
		panic(err)
	}
	c, err := NewClient("http://h", WithClient(zzLoop{s}))
	if err != nil {
		panic(err)
	}
	return c
}

func eqStrings(a, b []string) bool {
	if len(a) != len(b) {
		return false
	}
	eq := true
	for i := range a {
		eq = zz.And(eq, zz.EqString(a[i], b[i]))
	}
	return eq
}

func eqOptString(a, b OptString) bool {
	if a.Set != b.Set {
		return false
	}
	if !a.Set {
		return true
	}
	return zz.EqString(a.Value, b.Value)
}

func symStrings(n, l int) []string {
	if n < 0 {
		return nil
	}
	out := []string{}
	for i := 0; i < n; i++ {
		out = append(out, zz.String(l))
	}
	return out
}

func noByte(s string, c byte) bool {
	ok := true
	for i := 0; i < len(s); i++ {
		ok = zz.And(ok, s[i] != c)
	}
	return ok
}

// HGetM: matrix-style scalar and label/explode array in one path with a parameter in mid-segment.
func HGetM(lv, nw, lw int) {
	h, mw := &zzHandler{}, &zzMW{}
	c := zzPair(h, mw)
	p := GetMParams{V: zz.String(lv), W: symStrings(nw, lw)}
	err := c.GetM(context.Background(), p)
	core := lv > 0 && nw > 0 && lw > 0
	// v is followed by the static text ".x" inside its segment: a value containing '.' cannot be routed
	// unambiguously (C05's completeness clause excludes the characters that may follow the parameter)
	coreV := noByte(p.V, '.')
	if core {
		for _, it := range p.W {
			coreV = zz.And(coreV, noByte(it, '.'))
		}
	}
	if err != nil {
		zz.Cover("getm-client-error")
		zz.Assert(zz.Not(zz.And(core, coreV)), "core-domain path values are always delivered (GetM)")
		return
	}
	zz.Cover("getm-delivered")
	zz.Assert(h.calls == 1, "a successful call ran the handler exactly once (GetM)")
	zz.Assert(zz.And(zz.EqString(h.m.V, p.V), eqStrings(h.m.W, p.W)), "the handler receives exactly the path values the caller supplied (GetM)")
}

func symOptString(l int) OptString {
	if l < 0 {
		return OptString{}
	}
	return NewOptString(zz.String(l))
}

func mwString(mw *zzMW, name, in string) (string, bool) {
	v, ok := mw.params[middleware.ParameterKey{Name: name, In: openapi.ParameterLocation(in)}]
	if !ok {
		return "", false
	}
	switch x := v.(type) {
	case string:
		return x, true
	case OptString:
		return x.Value, x.Set
	}
	return "", false
}

// HGetP: every parameter location of one operation; which parts are symbolic is selected by part:
// 0 path a + n, 1 query q/qd (default), 2 query arrays qa (explode) / qn (no explode), 3 header + cookie + bool,
// 4 response variants (200 with header, 4XX pattern, default)
func HGetP(part, l1, l2 int) {
	h, mw := &zzHandler{}, &zzMW{}
	c := zzPair(h, mw)
	p := GetPParams{A: "x", N: 7, B: true}
	h.resP = &OutHeaders{Response: Out{V: "r"}}
	core := true
	switch part {
	case 0:
		p.A = zz.String(l1)
		p.N = zz.Int32()
		zz.Assume(zz.And(p.N > -1000, p.N < 1000))
		core = l1 > 0
	case 1:
		p.Q = symOptString(l1)
		p.Qd = symOptString(l2)
	case 2:
		p.Qa = symStrings(l1, 1)
		p.Qn = symStrings(l2, 1)
		for _, it := range p.Qn {
			core = zz.And(core, it[0] != ',')
		}
	case 3:
		p.XH = symOptString(l1)
		p.Ck = symOptString(l2)
		p.B = zz.Bool()
		if p.XH.Set { // header values on the wire: visible ASCII (no CR/LF/NUL ...): the in-process loop-back has no transport to refuse them
			for i := 0; i < len(p.XH.Value); i++ {
				zz.Assume(zz.And(p.XH.Value[i] > 0x20, p.XH.Value[i] < 0x7f))
			}
		}
	case 4:
		switch l1 {
		case 0:
			o := &OutHeaders{Response: Out{V: zz.String(1)}}
			if l2 > 0 {
				o.XR = NewOptString(zz.String(1))
				zz.Assume(zz.And(o.XR.Value[0] > 0x20, o.XR.Value[0] < 0x7f))
				o.Response.K = NewOptInt(int(zz.Uint8()))
			}
			h.resP = o
		case 1:
			code := zz.IntRange(400, 403) + 96*zz.IntRange(0, 1) // 400..403 and 496..499
			h.resP = &ErrStatusCode{StatusCode: code, Response: Err{M: zz.String(1)}}
		default:
			code := []int{500, 302, 599, 201}[l2%4]
			h.resP = &Err2StatusCode{StatusCode: code, Response: Err2{E: zz.String(1)}}
		}
	}
	res, err := c.GetP(context.Background(), p)
	if err != nil {
		zz.Cover("getp-client-error")
		zz.Assert(zz.Not(core), "core-domain parameter values are always delivered (GetP)")
		return
	}
	zz.Cover("getp-delivered")
	zz.Assert(h.calls == 1 && mw.calls == 1, "a successful call ran the middleware and the handler exactly once (GetP)")
	g := h.p
	zz.Assert(zz.And(zz.EqString(g.A, p.A), g.N == p.N), "the handler receives the path values the caller supplied")
	zz.Assert(eqOptString(g.Q, p.Q), "an optional query parameter arrives as supplied (absent stays absent)")
	wantQd := p.Qd
	if !p.Qd.Set {
		wantQd = NewOptString("dflt")
	}
	zz.Assert(eqOptString(g.Qd, wantQd), "an absent parameter with a schema default arrives as that default")
	if len(p.Qa) > 0 {
		zz.Assert(eqStrings(g.Qa, p.Qa), "an exploded query array arrives item by item")
	} else {
		zz.Assert(len(g.Qa) == 0, "an empty/absent exploded query array arrives empty")
	}
	zz.Known("C06/query-form-noexplode-single-empty-item", false)
	if len(p.Qn) > 0 {
		zz.Assert(eqStrings(g.Qn, p.Qn), "a non-exploded query array arrives item by item")
	} else {
		zz.Assert(len(g.Qn) == 0, "an empty/absent non-exploded query array arrives empty")
	}
	zz.Assert(zz.And(eqOptString(g.XH, p.XH), eqOptString(g.Ck, p.Ck)), "header and cookie parameters arrive as supplied")
	zz.Assert(g.B == p.B, "a boolean query parameter arrives as supplied")
	// middleware sees the same decoded values
	ma, okA := mwString(mw, "a", "path")
	mq, okQ := mwString(mw, "q", "query")
	zz.Assert(zz.And(okA, zz.EqString(ma, g.A)), "the middleware hook sees the path parameter the handler receives")
	zz.Assert(okQ == g.Q.Set && (!okQ || mq == g.Q.Value), "the middleware hook sees the optional query parameter the handler receives")
	// response
	switch want := h.resP.(type) {
	case *OutHeaders:
		got, ok := res.(*OutHeaders)
		zz.Assert(ok, "the caller receives the 200 variant the handler returned")
		if ok {
			zz.Assert(zz.And(zz.EqString(got.Response.V, want.Response.V), eqOptString(got.XR, want.XR)), "the caller receives the body and response header the handler returned")
			zz.Assert(got.Response.K == want.Response.K, "optional response members arrive as returned")
		}
	case *ErrStatusCode:
		got, ok := res.(*ErrStatusCode)
		zz.Assert(ok, "the caller receives the 4XX-pattern variant the handler returned")
		if ok {
			zz.Assert(got.StatusCode == want.StatusCode && got.Response.M == want.Response.M, "the caller receives the status code and body of the pattern response")
		}
	case *Err2StatusCode:
		got, ok := res.(*Err2StatusCode)
		zz.Assert(ok, "the caller receives the default variant the handler returned")
		if ok {
			zz.Assert(got.StatusCode == want.StatusCode && got.Response.E == want.Response.E, "the caller receives the status code and body of the default response")
		}
	}
}

// HPostB: JSON request body with a defaulted member and the echoed response body.
func HPostB(ls, nl, variant int) {
	h, mw := &zzHandler{}, &zzMW{}
	c := zzPair(h, mw)
	in := &In{A: int(zz.Uint8())} // small non-negative range keeps jx's digit-chunk arithmetic cheap; variant 3 uses a negative constant
	if variant == 3 {
		in.A = -40
	}
	if ls >= 0 {
		in.S = NewOptString(zz.String(ls))
		for i := 0; i < ls; i++ { // valid UTF-8 (ASCII) text: JSON strings carry Unicode text, not arbitrary bytes
			zz.Assume(in.S.Value[i] < 0x80)
		}
	}
	if nl >= 0 {
		in.L = []int{}
		for i := 0; i < nl; i++ {
			in.L = append(in.L, int(zz.Uint8())-7*i)
		}
	}
	if variant == 1 {
		in.D = NewOptString("own")
	}
	if variant == 2 {
		h.resB = &PostBCreated{}
	} else {
		h.resB = &In{A: int(zz.Uint8()), D: NewOptString("z")}
	}
	res, err := c.PostB(context.Background(), in)
	zz.Assert(err == nil, "a valid JSON body is always delivered and answered (PostB)")
	if err != nil {
		return
	}
	zz.Cover("postb-delivered")
	zz.Assert(h.calls == 1 && h.in != nil, "the handler ran once with a body")
	g := h.in
	zz.Assert(g.A == in.A, "the required integer member arrives unchanged")
	zz.Assert(eqOptString(g.S, in.S), "an optional string member arrives unchanged (absent stays absent)")
	wantD := in.D
	if !in.D.Set {
		wantD = NewOptString("dd")
	}
	zz.Assert(eqOptString(g.D, wantD), "an absent body member with a schema default arrives as that default")
	same := len(g.L) == len(in.L) && (g.L == nil) == (in.L == nil)
	for i := 0; same && i < len(in.L); i++ {
		same = g.L[i] == in.L[i]
	}
	zz.Assert(same, "an optional array member arrives unchanged (absent, empty and non-empty are distinguished)")
	if mb, ok := mw.body.(*In); ok {
		zz.Assert(mb == h.in, "the middleware hook sees the decoded body the handler receives")
	} else {
		zz.Fail("the middleware hook did not receive the decoded request body")
	}
	switch want := h.resB.(type) {
	case *PostBCreated:
		_, ok := res.(*PostBCreated)
		zz.Assert(ok, "the caller receives the 201 no-content variant the handler returned")
	case *In:
		got, ok := res.(*In)
		zz.Assert(ok, "the caller receives the 200 variant the handler returned (PostB)")
		if ok {
			zz.Assert(got.A == want.A && eqOptString(got.D, want.D) && !got.S.Set, "the caller receives the response body the handler returned")
		}
	}
}
