package PKGNAME

// C01 harness, second spec (exchange2.yml): features the first spec does not have - path parameters
// declared in another order than they occur in the template plus a path-item-level parameter, an
// operation-level parameter overriding a path-item-level one, zero-valued schema defaults in query /
// header / cookie, a required integer header, an enum parameter, and no-content responses (exact code,
// 4XX pattern, default) that carry headers.

import (
	"bytes"
	"context"
	"io"
	"net/http"
	"time"

	zz "github.com/ogen-go/ogen/internal/zzverif"
	"github.com/ogen-go/ogen/middleware"
	"github.com/ogen-go/ogen/openapi"
)

type zzRec2 struct {
	header http.Header
	status int
	body   []byte
}

func (r *zzRec2) Header() http.Header { return r.header }
func (r *zzRec2) Write(b []byte) (int, error) {
	if r.status == 0 {
		r.status = 200
	}
	r.body = append(r.body, b...)
	return len(b), nil
}
func (r *zzRec2) WriteHeader(s int) {
	if r.status == 0 {
		r.status = s
	}
}

type zzLoop2 struct{ s *Server }

func (l zzLoop2) Do(r *http.Request) (*http.Response, error) {
	rec := &zzRec2{header: http.Header{}}
	l.s.ServeHTTP(rec, r)
	if rec.status == 0 {
		rec.status = 200
	}
	return &http.Response{StatusCode: rec.status, Header: rec.header, Body: io.NopCloser(bytes.NewReader(rec.body)), ContentLength: int64(len(rec.body)), Request: r}, nil
}

type zzHandler2 struct {
	calls int
	p     GetOParams
	res   GetORes
	s     GetSParams
}

func (h *zzHandler2) GetO(ctx context.Context, params GetOParams) (GetORes, error) {
	h.calls++
	h.p = params
	return h.res, nil
}

func (h *zzHandler2) GetS(ctx context.Context, params GetSParams) error {
	h.calls++
	h.s = params
	return nil
}

type zzMW2 struct {
	calls  int
	params middleware.Parameters
}

func zzPair2(h *zzHandler2, mw *zzMW2) *Client {
	m := func(req middleware.Request, next middleware.Next) (middleware.Response, error) {
		mw.calls++
		mw.params = req.Params
		return next(req)
	}
	s, err := NewServer(h, WithMiddleware(m))
	if err != nil {
		panic(err)
	}
	c, err := NewClient("http://h", WithClient(zzLoop2{s}))
	if err != nil {
		panic(err)
	}
	return c
}

func eqOptString2(a, b OptString) bool {
	if a.Set != b.Set {
		return false
	}
	if !a.Set {
		return true
	}
	return zz.EqString(a.Value, b.Value)
}

func visible(s string) bool {
	ok := true
	for i := 0; i < len(s); i++ {
		ok = zz.And(ok, zz.And(s[i] > 0x20, s[i] < 0x7f))
	}
	return ok
}

// plainItem: non-empty visible text without the delimiters of header styles (the core domain of C01)
func plainItem(s string) bool {
	ok := len(s) > 0
	for i := 0; i < len(s); i++ {
		ok = zz.And(ok, zz.And(zz.And(s[i] > 0x20, s[i] < 0x7f), zz.And(s[i] != ',', s[i] != '=')))
	}
	return ok
}

// HGetO: part 0 path values (order!), 1 zero-valued defaults (mask l1 says which are supplied),
// 2 typed header / enum, 3 response variants, 4 the integer path-item-level parameter.
func HGetO(part, l1, l2 int) {
	h, mw := &zzHandler2{}, &zzMW2{}
	c := zzPair2(h, mw)
	p := GetOParams{X: "ex", Y: "why", K: 3, XQ: 5}
	h.res = &GetONoContent{}
	core := true
	switch part {
	case 0:
		p.X = zz.String(l1)
		p.Y = zz.String(l2)
		p.K = int(zz.Uint8()) // one digit here; the full int8 range is part 4
		zz.Assume(p.K < 10)
		core = l1 > 0 && l2 > 0
	case 4:
		p.K = int(zz.Int8())
	case 5: // an instant in unix-milli form far outside the int64-nanosecond window (years beyond 2262)
		ms := zz.Int64()
		zz.Assume(zz.And(ms >= 10000000000000, ms <= 99999999999999))
		p.Tm = NewOptUnixMilli(time.UnixMilli(ms))
	case 6: // structured response headers on the 204: exploded object (l1&1), non-exploded object (l1&2), array (l1&4)
		o := &GetONoContent{}
		if l1&1 != 0 {
			o.XO = NewOptGetONoContentXO(GetONoContentXO{Limit: NewOptInt(int(zz.Int8())), Window: NewOptString(zz.String(l2))})
			zz.Assume(plainItem(o.XO.Value.Window.Value))
		}
		if l1&2 != 0 {
			o.XP = NewOptGetONoContentXP(GetONoContentXP{A: NewOptInt(int(zz.Int8())), B: NewOptString(zz.String(l2))})
			zz.Assume(plainItem(o.XP.Value.B.Value))
		}
		if l1&4 != 0 {
			o.XA = []string{zz.String(l2), zz.String(1)}
			zz.Assume(zz.And(plainItem(o.XA[0]), plainItem(o.XA[1])))
		}
		h.res = o
	case 1:
		if l1&1 != 0 {
			p.Zi = NewOptInt(int(zz.Int8()))
		}
		if l1&2 != 0 {
			p.Zb = NewOptBool(zz.Bool())
		}
		if l1&4 != 0 {
			p.Zs = NewOptString(zz.String(l2))
		}
		if l1&8 != 0 {
			p.XZ = NewOptInt(int(zz.Int8()))
		}
		if l1&16 != 0 {
			p.Cz = NewOptBool(zz.Bool())
		}
	case 2:
		p.XQ = int(zz.Int8())
		if l1 > 0 {
			p.E = NewOptGetOE([]GetOE{GetOEOne, GetOETwo}[l1-1])
		}
	case 3:
		switch l1 {
		case 0:
			o := &GetONoContent{}
			if l2 >= 0 {
				o.XN = NewOptString(zz.String(l2))
				zz.Assume(visible(o.XN.Value))
			}
			h.res = o
		case 1:
			o := &GetO4XX{StatusCode: zz.IntRange(400, 402) + 97*zz.IntRange(0, 1), XC: int(zz.Int8())}
			if l2 >= 0 {
				o.XE = NewOptString(zz.String(l2))
				zz.Assume(visible(o.XE.Value))
			}
			h.res = o
		default:
			o := &GetODef{StatusCode: []int{500, 302, 599, 200}[l1%4]}
			if l2 >= 0 {
				o.XD = NewOptString(zz.String(l2))
				zz.Assume(visible(o.XD.Value))
			}
			h.res = o
		}
	}
	res, err := c.GetO(context.Background(), p)
	if err != nil {
		zz.Cover("geto-client-error")
		zz.Assert(zz.Not(core), "core-domain parameter values are always delivered (GetO)")
		return
	}
	zz.Cover("geto-delivered")
	zz.Assert(h.calls == 1 && mw.calls == 1, "a successful call ran the middleware and the handler exactly once (GetO)")
	g := h.p
	zz.Assert(zz.And(zz.EqString(g.X, p.X), zz.EqString(g.Y, p.Y)), "path parameters declared in another order than the template arrive in the right fields")
	zz.Assert(g.K == p.K, "a path-item-level path parameter arrives as supplied")
	wantZi, wantZb, wantZs, wantXZ, wantCz := p.Zi, p.Zb, p.Zs, p.XZ, p.Cz
	if !wantZi.Set {
		wantZi = NewOptInt(0)
	}
	if !wantZb.Set {
		wantZb = NewOptBool(false)
	}
	if !wantZs.Set {
		wantZs = NewOptString("") // the operation-level declaration overrides the path-item-level default
	}
	if !wantXZ.Set {
		wantXZ = NewOptInt(0)
	}
	if !wantCz.Set {
		wantCz = NewOptBool(false)
	}
	zz.Assert(g.Zi == wantZi, "an absent integer query parameter with default 0 arrives as set to 0; a supplied one as supplied")
	zz.Assert(g.Zb == wantZb, "an absent boolean query parameter with default false arrives as set to false; a supplied one as supplied")
	zz.Assert(eqOptString2(g.Zs, wantZs), "an absent string query parameter with default \"\" arrives as set to \"\"; a supplied one as supplied")
	zz.Assert(g.XZ == wantXZ, "an absent integer header with default 0 arrives as set to 0; a supplied one as supplied")
	zz.Assert(g.Cz == wantCz, "an absent boolean cookie with default false arrives as set to false; a supplied one as supplied")
	zz.Assert(g.XQ == p.XQ, "a required integer header arrives as supplied")
	zz.Assert(g.E == p.E, "an optional enum query parameter arrives as supplied")
	zz.Assert(g.Tm.Set == p.Tm.Set && (!p.Tm.Set || g.Tm.Value.UnixMilli() == p.Tm.Value.UnixMilli()), "a unix-milli query parameter arrives as the instant supplied")
	// middleware sees what the handler sees
	mx, okx := mw.params[middleware.ParameterKey{Name: "x", In: openapi.LocationPath}].(string)
	my, oky := mw.params[middleware.ParameterKey{Name: "y", In: openapi.LocationPath}].(string)
	zz.Assert(okx && oky, "the middleware hook receives the path parameters")
	if okx && oky {
		zz.Assert(zz.And(zz.EqString(mx, g.X), zz.EqString(my, g.Y)), "the middleware hook sees the path parameters the handler receives")
	}
	mzi, okzi := mw.params[middleware.ParameterKey{Name: "zi", In: openapi.LocationQuery}].(OptInt)
	zz.Assert(okzi && mzi == g.Zi, "the middleware hook sees the defaulted query parameter the handler receives")
	// response
	switch want := h.res.(type) {
	case *GetONoContent:
		got, ok := res.(*GetONoContent)
		zz.Assert(ok, "the caller receives the 204 variant the handler returned")
		if ok {
			zz.Assert(eqOptString2(got.XN, want.XN), "the caller receives the header of the exact-code no-content response")
			zz.Assert(got.XO.Set == want.XO.Set && got.XO.Value.Limit == want.XO.Value.Limit && eqOptString2(got.XO.Value.Window, want.XO.Value.Window), "the caller receives the exploded object response header the handler returned")
			zz.Assert(got.XP.Set == want.XP.Set && got.XP.Value.A == want.XP.Value.A && eqOptString2(got.XP.Value.B, want.XP.Value.B), "the caller receives the non-exploded object response header the handler returned")
			okA := len(got.XA) == len(want.XA)
			for i := 0; okA && i < len(want.XA); i++ {
				okA = zz.EqString(got.XA[i], want.XA[i])
			}
			zz.Assert(okA, "the caller receives the array response header the handler returned")
		}
	case *GetO4XX:
		got, ok := res.(*GetO4XX)
		zz.Assert(ok, "the caller receives the 4XX-pattern no-content variant the handler returned")
		if ok {
			zz.Assert(got.StatusCode == want.StatusCode, "the caller receives the status code of the pattern response")
			zz.Assert(got.XC == want.XC, "the caller receives the required integer header of the pattern no-content response")
			zz.Assert(eqOptString2(got.XE, want.XE), "the caller receives the optional header of the pattern no-content response")
		}
	case *GetODef:
		got, ok := res.(*GetODef)
		zz.Assert(ok, "the caller receives the default no-content variant the handler returned")
		if ok {
			zz.Assert(got.StatusCode == want.StatusCode, "the caller receives the status code of the default response")
			zz.Assert(eqOptString2(got.XD, want.XD), "the caller receives the header of the default no-content response")
		}
	}
}

// HGetS: path parameters of array shape in the simple style (delimiter ',') and in the exploded matrix style
// (delimiter ';'): the two items of one of them (mode) are l1 and l2 arbitrary bytes. Either the call fails on the client (allowed only outside the
// core domain: an empty item or one containing the style's delimiter or a byte the path cannot carry), or the
// handler receives exactly the items supplied - a value containing the delimiter must never arrive as more items.
func HGetS(mode, l1, l2 int) {
	h, mw := &zzHandler2{}, &zzMW2{}
	c := zzPair2(h, mw)
	p := GetSParams{Arr: []string{"a", "bc"}, Mo: []string{"m", "no"}}
	if mode == 0 { // one of the two parameters is symbolic per case (both at once: > 40000 paths)
		p.Arr = []string{zz.String(l1), zz.String(l2)}
	} else {
		p.Mo = []string{zz.String(l1), zz.String(l2)}
	}
	core := l1 > 0 && l2 > 0
	for _, it := range append(append([]string(nil), p.Arr...), p.Mo...) {
		for i := 0; i < len(it); i++ {
			core = zz.And(core, zz.And(zz.And(it[i] > 0x20, it[i] < 0x7f), zz.And(zz.And(it[i] != ',', it[i] != ';'), zz.And(it[i] != '/', zz.And(it[i] != '%', it[i] != '=')))))
		}
	}
	err := c.GetS(context.Background(), p)
	if err != nil {
		zz.Cover("gets-client-error")
		zz.Assert(zz.Not(core), "core-domain path array items are always delivered (GetS)")
		return
	}
	zz.Cover("gets-delivered")
	zz.Assert(h.calls == 1, "a successful call ran the handler exactly once (GetS)")
	g := h.s
	okA := len(g.Arr) == 2 && len(g.Mo) == 2
	if okA {
		okA = zz.And(zz.And(zz.EqString(g.Arr[0], p.Arr[0]), zz.EqString(g.Arr[1], p.Arr[1])), zz.And(zz.EqString(g.Mo[0], p.Mo[0]), zz.EqString(g.Mo[1], p.Mo[1])))
	}
	zz.Assert(okA, "path array parameters arrive with exactly the items supplied (a delimiter inside an item is refused, never split)")
}
