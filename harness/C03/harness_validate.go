package validate

// C03 kernels: the validate.* primitives the generated Validate() methods are
// built from, with fully symbolic validator parameters and instance values,
// against references written from the JSON Schema keyword definitions.

import (
	"unicode/utf8"

	zz "github.com/ogen-go/ogen/internal/zzverif"
)

var ZZEntries = map[string]func([]int){
	"HInt":     func(a []int) { HInt(a[0]) },
	"HLength":  func(a []int) { HLength(a[0]) },
	"HString":  func(a []int) { HString(a[0]) },
	"HStringRunes": func(a []int) { HStringRunes(a[0], a[1], a[2]) },
	"HUnique":  func(a []int) { HUnique(a[0], a[1]) },
	"HFloatNo": func(a []int) {},
}

// multipleOf reference: there is an integer k with v == k*m (m > 0), written
// without the implementation's abs/unsigned-remainder route.
func refMultiple(v int64, m uint64) bool {
	if m > 1<<63 {
		return v == 0
	}
	if m == 1<<63 {
		return zz.Or(v == 0, v == -1<<63)
	}
	return v%int64(m) == 0
}

func HInt(split int) {
	var t Int
	t.MinSet, t.MinExclusive = zz.Bool(), zz.Bool()
	t.MaxSet, t.MaxExclusive = zz.Bool(), zz.Bool()
	t.MultipleOfSet = zz.Bool()
	t.Min, t.Max = zz.Int64(), zz.Int64()
	t.MultipleOf = zz.Uint64()
	zz.Assume(t.MultipleOf != 0) // multipleOf must be > 0 (JSON Schema); 0 is rejected before code is generated
	v := zz.Int64()
	// split only spreads work: sign of v x multipleOf set
	zz.Assume((v < 0) == (split&1 != 0))
	zz.Assume(t.MultipleOfSet == (split&2 != 0))
	err := t.Validate(v)

	minOK := zz.Or(!t.MinSet, zz.Or(v > t.Min, zz.And(v == t.Min, !t.MinExclusive)))
	maxOK := zz.Or(!t.MaxSet, zz.Or(v < t.Max, zz.And(v == t.Max, !t.MaxExclusive)))
	mulOK := true
	if t.MultipleOfSet {
		mulOK = refMultiple(v, t.MultipleOf)
	}
	want := zz.And(zz.And(minOK, maxOK), mulOK)
	if err == nil {
		zz.Cover("int-accepted")
		zz.Assert(want, "validate.Int accepts only values satisfying minimum/maximum/exclusive/multipleOf")
	} else {
		zz.Cover("int-refused")
		zz.Assert(zz.Not(want), "validate.Int refuses only values violating minimum/maximum/exclusive/multipleOf")
	}
}

// kind 0: Array.ValidateLength, 1: Object.ValidateProperties
func HLength(kind int) {
	minSet, maxSet := zz.Bool(), zz.Bool()
	mn, mx, n := zz.Int(), zz.Int(), zz.Int()
	zz.Assume(n >= 0)
	var err error
	if kind == 0 {
		err = Array{MinLength: mn, MinLengthSet: minSet, MaxLength: mx, MaxLengthSet: maxSet}.ValidateLength(n)
	} else {
		err = Object{MinProperties: mn, MinPropertiesSet: minSet, MaxProperties: mx, MaxPropertiesSet: maxSet}.ValidateProperties(n)
	}
	want := zz.And(zz.Or(!minSet, n >= mn), zz.Or(!maxSet, n <= mx))
	if err == nil {
		zz.Assert(want, "count validators accept only counts within min/max")
	} else {
		zz.Assert(zz.Not(want), "count validators refuse only counts outside min/max")
	}
}

// refRunes: number of code points of a valid UTF-8 string = bytes that are not continuation bytes.
func refRunes(s string) int {
	n := 0
	for i := 0; i < len(s); i++ {
		n += zz.IteInt(s[i]&0xC0 != 0x80, 1, 0)
	}
	return n
}

func HString(n int) {
	s := zz.String(n)
	zz.Assume(utf8.ValidString(s))
	minSet, maxSet := zz.Bool(), zz.Bool()
	mn, mx := zz.IntRange(0, 5), zz.IntRange(0, 5)
	t := String{MinLength: mn, MinLengthSet: minSet, MaxLength: mx, MaxLengthSet: maxSet}
	err := t.Validate(s)
	cnt := refRunes(s)
	if cnt != len(s) {
		zz.Cover("multi-byte-rune")
	}
	want := zz.And(zz.Or(!minSet, cnt >= mn), zz.Or(!maxSet, cnt <= mx))
	if err == nil {
		zz.Assert(want, "validate.String accepts only strings whose code-point count is within minLength/maxLength")
	} else {
		zz.Assert(zz.Not(want), "validate.String refuses only strings whose code-point count is outside minLength/maxLength")
	}
}

// symRune: one code point spelled with k bytes (k = 1..4), payload bits symbolic within the ranges that are
// valid UTF-8 without overlong or surrogate forms.
func symRune(k int) []byte {
	cont := func() byte {
		c := zz.Byte()
		zz.Assume(zz.And(c >= 0x80, c <= 0xBF))
		return c
	}
	lead := zz.Byte()
	switch k {
	case 1:
		zz.Assume(zz.And(lead >= 0x20, lead <= 0x7e))
		return []byte{lead}
	case 2:
		zz.Assume(zz.And(lead >= 0xC2, lead <= 0xDF))
		return []byte{lead, cont()}
	case 3:
		zz.Assume(zz.And(lead >= 0xE1, lead <= 0xEC))
		return []byte{lead, cont(), cont()}
	default:
		zz.Assume(zz.And(lead >= 0xF1, lead <= 0xF3))
		return []byte{lead, cont(), cont(), cont()}
	}
}

// HStringRunes: a string of nr code points - the first nr/2 spelled with c1 bytes each, the others with c2
// bytes each - against fully symbolic minLength / maxLength (0..30) and set flags: lengths are counted in
// code points, whatever the byte length.
func HStringRunes(nr, c1, c2 int) {
	var b []byte
	for i := 0; i < nr; i++ {
		if i < nr/2 {
			b = append(b, symRune(c1)...)
		} else {
			b = append(b, symRune(c2)...)
		}
	}
	s := string(b)
	minSet, maxSet := zz.Bool(), zz.Bool()
	mn, mx := zz.Int(), zz.Int()
	zz.Assume(zz.And(zz.And(mn >= 0, mn <= 30), zz.And(mx >= 0, mx <= 30)))
	t := String{MinLength: mn, MinLengthSet: minSet, MaxLength: mx, MaxLengthSet: maxSet}
	err := t.Validate(s)
	zz.Cover("rune-string-validated")
	want := zz.And(zz.Or(!minSet, nr >= mn), zz.Or(!maxSet, nr <= mx))
	if err == nil {
		zz.Assert(want, "validate.String accepts only strings whose code-point count is within minLength/maxLength (multi-byte code points)")
	} else {
		zz.Assert(zz.Not(want), "validate.String refuses only strings whose code-point count is outside minLength/maxLength (multi-byte code points)")
	}
}

// kind 0: int64 items, 1: string items of one byte
func HUnique(kind, n int) {
	distinct := true
	var err error
	if kind == 0 {
		a := make([]int64, n)
		for i := range a {
			a[i] = zz.Int64()
		}
		for i := 0; i < n; i++ {
			for j := i + 1; j < n; j++ {
				distinct = zz.And(distinct, a[i] != a[j])
			}
		}
		err = UniqueItems(a)
	} else {
		a := make([]string, n)
		for i := range a {
			a[i] = zz.String(1)
		}
		for i := 0; i < n; i++ {
			for j := i + 1; j < n; j++ {
				distinct = zz.And(distinct, a[i] != a[j])
			}
		}
		err = UniqueItems(a)
	}
	if err == nil {
		zz.Assert(distinct, "UniqueItems accepts only pairwise distinct items")
	} else {
		zz.Assert(zz.Not(distinct), "UniqueItems refuses only arrays with a repeated item")
	}
}
