package PKGNAME

// C03/C04 harness (copied into the generated package): the generated Decode + Validate of every
// named schema, driven with JSON texts built schema-directedly (valid instances and single-keyword
// mutants) whose leaves are symbolic, against a reference validator over the abstract value; and the
// Encode/Decode round trip of every accepted instance.

import (
	"io"

	"github.com/go-faster/jx"

	zz "github.com/ogen-go/ogen/internal/zzverif"
	ogenjson "github.com/ogen-go/ogen/json"
)

type zzSchema struct {
	Type       string // integer, string, boolean, array, object
	Nullable   bool
	Min, Max   *int64
	ExclMin    bool
	ExclMax    bool
	MultipleOf int64
	MinLen     *int
	MaxLen     *int
	Enum       []string
	EnumInt    []int64
	Items      *zzSchema
	MinItems   *int
	MaxItems   *int
	Unique     bool
	Props      []zzProp
	AddlFalse  bool
	Ref        int // 1 + index of the named schema this node refers to ($ref, possibly recursive); 0: none
	Format     string      // "uint64": a string-formatted unsigned integer
	Addl       *zzSchema   // additionalProperties: <schema> (map part of an object)
	OneOf      []*zzSchema // sum type: exactly one variant must match (distinct JSON types, or objects each with a required member of its own; the builder also merges two object variants)
	Disc       string      // sum with an explicit discriminator: the property name (every variant declares it as a required one-value enum)
	MinProps   *int        // minProperties / maxProperties (map schemas)
	MaxProps   *int
}

type zzProp struct {
	Name     string
	Required bool
	S        *zzSchema
}

func zzI64(v int64) *int64 { return &v }
func zzInt(v int) *int     { return &v }

type zzDecoder interface{ Decode(*jx.Decoder) error }
type zzEncoder interface{ Encode(*jx.Encoder) }
type zzValidator interface{ Validate() error }

const (
	kNull = iota
	kBool
	kNum
	kStr
	kArr
	kObj
	kFlt // a JSON number with a fraction (concrete text in str)
)

type aval struct {
	kind int
	b    bool
	num  int64
	str  []byte // code points are counted by the reference
	arr  []aval
	keys []string
	vals []aval
}

type plan struct{ v int }

func (p *plan) next(n int) int {
	r := p.v % n
	p.v /= n
	return r
}

type builder struct {
	arbEnum int // arbitrary strings written where the schema declares an enum
	out   []byte
	p     *plan
	extra bool // the text has a member the schema does not declare
	nbool int
	nint  int
	depth int // nesting depth through $ref nodes (recursive schemas are unfolded at most twice)
}

func (b *builder) lit(s string) { b.out = append(b.out, s...) }

func (b *builder) digit(nonzero bool) int64 {
	c := zz.Byte()
	if nonzero {
		zz.Assume(zz.And(c >= '1', c <= '9'))
	} else {
		zz.Assume(zz.And(c >= '0', c <= '9'))
	}
	b.out = append(b.out, c)
	return int64(c - '0')
}

func (b *builder) intTok() aval {
	b.nint++
	if b.nint > 3 { // only the first three integers of an instance are symbolic (keeps wide objects tractable)
		sh := b.p.next(3)
		b.lit([]string{"7", "12", "-3"}[sh])
		return aval{kind: kNum, num: []int64{7, 12, -3}[sh]}
	}
	switch b.p.next(3) {
	case 0:
		return aval{kind: kNum, num: b.digit(false)}
	case 1:
		hi := b.digit(true)
		lo := b.digit(false)
		return aval{kind: kNum, num: hi*10 + lo}
	default:
		b.lit("-")
		return aval{kind: kNum, num: -b.digit(true)}
	}
}

// unixTok: a unix timestamp as a JSON number: small (a symbolic digit) or far in the future - a 14-digit count
// whose last two digits are symbolic (beyond the int64-nanosecond window for milliseconds: the value must survive
// decode -> time.Time -> encode unchanged).
func (b *builder) unixTok() aval {
	if b.p.next(2) == 0 {
		return aval{kind: kNum, num: b.digit(false)}
	}
	b.lit("925340230071")
	hi := b.digit(false)
	lo := b.digit(false)
	return aval{kind: kNum, num: 92534023007100 + hi*10 + lo}
}

// uintStrTok: a string-formatted unsigned integer of one or two digits, or nineteen digits around 2^63 with the
// last three symbolic (the helpers' behaviour on EVERY uint64 is C13's subject: twenty fully symbolic digits inside
// a whole generated decoder did not close here).
func (b *builder) uintStrTok() aval {
	b.lit(`"`)
	start := len(b.out)
	switch b.p.next(3) {
	case 0:
		b.digit(false)
	case 1:
		b.digit(true)
		b.digit(false)
	default: // nineteen digits around 2^63 = 9223372036854775808: the last three are symbolic (all below 2^64)
		b.lit("9223372036854775")
		b.digit(false)
		b.digit(false)
		b.digit(false)
	}
	content := append([]byte(nil), b.out[start:]...)
	b.lit(`"`)
	return aval{kind: kStr, str: content}
}

func (b *builder) strTok() aval {
	b.lit(`"`)
	var content []byte
	n := b.p.next(4)
	if n == 3 { // a two-byte rune followed by one symbolic byte
		b.lit("é")
		content = append(content, 0xc3, 0xa9)
		n = 1
	}
	for i := 0; i < n; i++ {
		c := zz.Byte()
		zz.Assume(zz.And(zz.And(c >= 0x20, c < 0x7f), zz.And(c != '"', c != '\\')))
		b.out = append(b.out, c)
		content = append(content, c)
	}
	b.lit(`"`)
	return aval{kind: kStr, str: content}
}

// value builds an instance of s; mutate > 0 selects a deliberately wrong type at this position.
func (b *builder) value(s *zzSchema, wrongType bool) aval {
	if s.Ref != 0 {
		b.depth++
		defer func() { b.depth-- }()
		s = zzSchemas[s.Ref-1]
	}
	if len(s.OneOf) > 0 {
		n := len(s.OneOf)
		allObj := n >= 2
		for _, alt := range s.OneOf {
			if alt.Type != "object" || alt.Ref != 0 {
				allObj = false
			}
		}
		if s.Disc != "" && !wrongType {
			// built from one variant; when its discriminator member is an ARBITRARY string the text may select another
			// variant, for which the remaining members are undeclared ones - decoders drop those by design, so the
			// "same JSON value" clause of the round trip does not apply (like the undeclared-member mutation)
			before := b.arbEnum
			v := b.value(s.OneOf[b.p.next(n)], false)
			if b.arbEnum != before {
				b.extra = true
			}
			return v
		}
		if !allObj || wrongType {
			return b.value(s.OneOf[b.p.next(n)], wrongType)
		}
		k := b.p.next(n + 1)
		if k < n {
			return b.value(s.OneOf[k], false)
		}
		// an instance of variant 0 that ALSO carries the required members of variant 1: it matches both (members a
		// variant does not declare are allowed), so exactly-one fails and it must be refused
		v := b.value(s.OneOf[0], false)
		if v.kind != kObj || len(b.out) == 0 || b.out[len(b.out)-1] != '}' {
			return v
		}
		b.out = b.out[:len(b.out)-1]
		for _, pr := range s.OneOf[1].Props {
			if !pr.Required {
				continue
			}
			if b.out[len(b.out)-1] != '{' {
				b.lit(",")
			}
			b.lit(`"` + pr.Name + `":`)
			v.keys = append(v.keys, pr.Name)
			v.vals = append(v.vals, b.value(pr.S, false))
		}
		b.lit("}")
		return v
	}
	if wrongType {
		if s.Type == "string" {
			return b.intTok()
		}
		return b.strTok()
	}
	if s.Type == "number" && b.p.next(3) == 2 { // an integer literal is a number too (concrete: floats are not symbolic here)
		b.lit("7")
		return aval{kind: kNum, num: 7}
	}
	if s.Nullable && b.p.next(3) == 2 {
		b.lit("null")
		return aval{kind: kNull}
	}
	switch s.Type {
	case "integer":
		if s.Format == "unix-milli" || s.Format == "unix-seconds" {
			return b.unixTok()
		}
		return b.intTok()
	case "number": // floats are concrete in the engine: a fixed literal with a fraction (the TYPE of the member is the subject)
		b.lit("1.5")
		return aval{kind: kFlt, str: []byte("1.5")}
	case "string":
		if s.Format == "uint64" {
			return b.uintStrTok()
		}
		if s.Format == "float32" || s.Format == "float64" { // string-formatted float: a fixed canonical literal in quotes
			b.lit(`"2.5"`)
			return aval{kind: kStr, str: []byte("2.5")}
		}
		if len(s.Enum) > 0 && b.p.next(2) == 0 {
			e := s.Enum[b.p.next(len(s.Enum))]
			b.lit(`"` + e + `"`)
			return aval{kind: kStr, str: []byte(e)}
		}
		if len(s.Enum) > 0 {
			b.arbEnum++ // an arbitrary string where an enum is declared
		}
		return b.strTok()
	case "boolean":
		v := b.nbool%2 == 0
		if b.nbool < 2 { // only the first two booleans of an instance are symbolic (each forks: "true"/"false" differ in length)
			v = zz.Bool()
		}
		b.nbool++
		if v {
			b.lit("true")
		} else {
			b.lit("false")
		}
		return aval{kind: kBool, b: v}
	case "array":
		n := b.p.next(4)
		if s.Items.Ref != 0 && b.depth >= 2 {
			n = 0 // recursion bound
		}
		b.lit("[")
		var items []aval
		for i := 0; i < n; i++ {
			if i > 0 {
				b.lit(",")
			}
			items = append(items, b.value(s.Items, false))
		}
		b.lit("]")
		return aval{kind: kArr, arr: items}
	default:
		// mutation: 0 none, 1 drop a required member, 2 wrong type in a member, 3 null in a member, 4 extra member
		mut := b.p.next(5)
		target := 0
		if len(s.Props) > 0 {
			target = b.p.next(len(s.Props))
		}
		b.lit("{")
		var keys []string
		var vals []aval
		first := true
		for i, pr := range s.Props {
			present := true
			if !pr.Required {
				present = b.p.next(2) == 0
			}
			if pr.S.Ref != 0 && b.depth >= 2 {
				present = false // recursion bound (recursive members are optional in the matrix)
			}
			if mut == 1 && i == target {
				present = false
			}
			if !present {
				continue
			}
			if !first {
				b.lit(",")
			}
			first = false
			b.lit(`"` + pr.Name + `":`)
			var v aval
			switch {
			case mut == 2 && i == target:
				v = b.value(pr.S, true)
			case mut == 3 && i == target:
				b.lit("null")
				v = aval{kind: kNull}
			default:
				v = b.value(pr.S, false)
			}
			keys = append(keys, pr.Name)
			vals = append(vals, v)
		}
		if s.Addl != nil {
			nx := b.p.next(3)
			for i := 0; i < nx; i++ {
				if !first {
					b.lit(",")
				}
				first = false
				name := []string{"x0", "x1"}[i]
				b.lit(`"` + name + `":`)
				keys = append(keys, name)
				vals = append(vals, b.value(s.Addl, false))
			}
		}
		if mut == 4 {
			if !first {
				b.lit(",")
			}
			b.lit(`"zzextra":1`)
			keys = append(keys, "zzextra")
			vals = append(vals, aval{kind: kNum, num: 1})
			b.extra = true
		}
		b.lit("}")
		return aval{kind: kObj, keys: keys, vals: vals}
	}
}

// ---- reference validator (JSON Schema keywords ogen implements; integers, strings by length, arrays, objects)

func runes(s []byte) int {
	n := 0
	for _, c := range s {
		if c&0xC0 != 0x80 {
			n++
		}
	}
	return n
}

func avalEq(x, y aval) bool {
	if x.kind != y.kind {
		return false
	}
	switch x.kind {
	case kNum:
		return x.num == y.num
	case kFlt:
		return zz.EqBytes(x.str, y.str)
	case kStr:
		return zz.EqBytes(x.str, y.str)
	case kBool:
		return x.b == y.b
	}
	return false
}

func refValid(s *zzSchema, v aval) bool {
	if s.Ref != 0 {
		s = zzSchemas[s.Ref-1]
	}
	if len(s.OneOf) > 0 { // exactly one variant
		one, more := false, false
		for _, alt := range s.OneOf {
			r := refValid(alt, v)
			more = zz.Or(more, zz.And(one, r))
			one = zz.Or(one, r)
		}
		return zz.And(one, zz.Not(more))
	}
	if v.kind == kNull {
		return s.Nullable
	}
	switch s.Type {
	case "number":
		return v.kind == kFlt || v.kind == kNum
	case "integer":
		if v.kind != kNum {
			return false
		}
		ok := true
		if s.Min != nil {
			if s.ExclMin {
				ok = zz.And(ok, v.num > *s.Min)
			} else {
				ok = zz.And(ok, v.num >= *s.Min)
			}
		}
		if s.Max != nil {
			if s.ExclMax {
				ok = zz.And(ok, v.num < *s.Max)
			} else {
				ok = zz.And(ok, v.num <= *s.Max)
			}
		}
		if s.MultipleOf != 0 {
			ok = zz.And(ok, v.num%s.MultipleOf == 0)
		}
		if len(s.EnumInt) > 0 {
			in := false
			for _, e := range s.EnumInt {
				in = zz.Or(in, v.num == e)
			}
			ok = zz.And(ok, in)
		}
		return ok
	case "string":
		if v.kind != kStr {
			return false
		}
		ok := true
		if s.Format == "float32" || s.Format == "float64" {
			return zz.EqBytes(v.str, []byte("2.5")) // the only float text the builder writes; anything else came from a mutation
		}
		if s.Format == "uint64" { // canonical decimal (the builder only writes digits; no leading zero unless "0")
			if len(v.str) == 0 {
				return false
			}
			for _, c := range v.str {
				ok = zz.And(ok, zz.And(c >= '0', c <= '9'))
			}
			if len(v.str) > 1 {
				ok = zz.And(ok, v.str[0] != '0')
			}
			return ok
		}
		n := runes(v.str)
		if s.MinLen != nil {
			ok = zz.And(ok, n >= *s.MinLen)
		}
		if s.MaxLen != nil {
			ok = zz.And(ok, n <= *s.MaxLen)
		}
		if len(s.Enum) > 0 {
			in := false
			for _, e := range s.Enum {
				in = zz.Or(in, zz.EqBytes(v.str, []byte(e)))
			}
			ok = zz.And(ok, in)
		}
		return ok
	case "boolean":
		return v.kind == kBool
	case "array":
		if v.kind != kArr {
			return false
		}
		ok := true
		if s.MinItems != nil && len(v.arr) < *s.MinItems {
			ok = false
		}
		if s.MaxItems != nil && len(v.arr) > *s.MaxItems {
			ok = false
		}
		for _, it := range v.arr {
			ok = zz.And(ok, refValid(s.Items, it))
		}
		if s.Unique {
			for i := range v.arr {
				for j := i + 1; j < len(v.arr); j++ {
					ok = zz.And(ok, zz.Not(avalEq(v.arr[i], v.arr[j])))
				}
			}
		}
		return ok
	default:
		if v.kind != kObj {
			return false
		}
		ok := true
		for _, pr := range s.Props {
			found := false
			for i, k := range v.keys {
				if k == pr.Name {
					found = true
					ok = zz.And(ok, refValid(pr.S, v.vals[i]))
				}
			}
			if pr.Required && !found {
				ok = false
			}
		}
		if s.Addl != nil {
			for i, k := range v.keys {
				declared := false
				for _, pr := range s.Props {
					if pr.Name == k {
						declared = true
					}
				}
				if !declared {
					ok = zz.And(ok, refValid(s.Addl, v.vals[i]))
				}
			}
		}
		if s.MinProps != nil && len(v.keys) < *s.MinProps {
			ok = false
		}
		if s.MaxProps != nil && len(v.keys) > *s.MaxProps {
			ok = false
		}
		if s.AddlFalse {
			for _, k := range v.keys {
				declared := false
				for _, pr := range s.Props {
					if pr.Name == k {
						declared = true
					}
				}
				if !declared {
					ok = false
				}
			}
		}
		return ok
	}
}

// foreignMemberName: at some field-discriminated oneOf node (all variants objects) the instance object carries a
// member name that only variant i declares AND a member name that only another variant declares - region of the
// recorded finding C03/oneof-foreign-member-name (ogen picks the variant by member NAMES and reports "multiple
// oneOf matches", also when the document is valid against exactly one variant because the other one fails on a
// member's value).
func foreignMemberName(s *zzSchema, v aval) bool {
	if s.Ref != 0 {
		s = zzSchemas[s.Ref-1]
	}
	if len(s.OneOf) > 0 {
		if v.kind != kObj || s.Disc != "" { // explicit discriminator: no inference by member names
			return false
		}
		hit := 0
		for i, alt := range s.OneOf {
			if alt.Type != "object" {
				return false
			}
			own := false
			for _, pr := range alt.Props {
				unique := true
				for j, other := range s.OneOf {
					if j == i {
						continue
					}
					for _, q := range other.Props {
						if q.Name == pr.Name {
							unique = false
						}
					}
				}
				if !unique {
					continue
				}
				for _, k := range v.keys {
					if k == pr.Name {
						own = true
					}
				}
			}
			if own {
				hit++
			}
		}
		return hit >= 2
	}
	if s.Type == "array" && v.kind == kArr {
		for _, it := range v.arr {
			if foreignMemberName(s.Items, it) {
				return true
			}
		}
		return false
	}
	if s.Type != "object" || v.kind != kObj {
		return false
	}
	for _, pr := range s.Props {
		for i, k := range v.keys {
			if k == pr.Name && foreignMemberName(pr.S, v.vals[i]) {
				return true
			}
		}
	}
	return false
}

// absentOptionalArray: some optional member of array type with minItems >= 1 is absent from the
// instance (at any object level) - region of the recorded finding C03/absent-optional-array-minitems.
func absentOptionalArray(s *zzSchema, v aval) bool {
	if s.Ref != 0 {
		s = zzSchemas[s.Ref-1]
	}
	if s.Type == "array" && v.kind == kArr {
		for _, it := range v.arr {
			if absentOptionalArray(s.Items, it) {
				return true
			}
		}
		return false
	}
	if s.Type != "object" || v.kind != kObj {
		return false
	}
	for _, pr := range s.Props {
		found := -1
		for i, k := range v.keys {
			if k == pr.Name {
				found = i
			}
		}
		if found < 0 {
			ps := pr.S
			if ps.Ref != 0 {
				ps = zzSchemas[ps.Ref-1]
			}
			if !pr.Required && ps.Type == "array" && ps.MinItems != nil && *ps.MinItems >= 1 {
				return true
			}
			continue
		}
		if absentOptionalArray(pr.S, v.vals[found]) {
			return true
		}
	}
	return false
}

// accept mirrors the generated request decoder: Decode, no trailing data, then Validate (when generated).
func accept(idx int, text []byte) (any, bool) {
	v := zzNew(idx)
	d := jx.DecodeBytes(text)
	if err := v.(zzDecoder).Decode(d); err != nil {
		return nil, false
	}
	if err := d.Skip(); err != io.EOF {
		return nil, false
	}
	if val, ok := v.(zzValidator); ok {
		if err := val.Validate(); err != nil {
			return nil, false
		}
	}
	return v, true
}

// HAccept: decode-and-validate accepts the instance exactly when the reference says it is valid.
func HAccept(idx, variant int) {
	b := &builder{p: &plan{v: variant}}
	av := b.value(zzSchemas[idx], false)
	want := refValid(zzSchemas[idx], av)
	_, got := accept(idx, b.out)
	zz.Observe("text", string(b.out))
	if got {
		zz.Cover("instance-accepted")
		zz.Assert(want, "an accepted document is valid against the schema")
	} else {
		zz.Cover("instance-refused")
		zz.Known("C03/absent-optional-array-minitems", absentOptionalArray(zzSchemas[idx], av))
		zz.Known("C03/oneof-foreign-member-name", foreignMemberName(zzSchemas[idx], av))
		zz.Assert(zz.Not(want), "a refused document is invalid against the schema")
	}
}

// hasMap: some object of the schema has a map part; Go maps are iterated in random order, so two encodings of
// one value may order those members differently.
func hasMap(s *zzSchema, depth int) bool {
	if s == nil || depth > 3 {
		return false
	}
	if s.Ref != 0 {
		s = zzSchemas[s.Ref-1]
	}
	if s.Addl != nil {
		return true
	}
	if hasMap(s.Items, depth+1) {
		return true
	}
	for _, pr := range s.Props {
		if hasMap(pr.S, depth+1) {
			return true
		}
	}
	for _, alt := range s.OneOf {
		if hasMap(alt, depth+1) {
			return true
		}
	}
	return false
}

// HRound (C04): an accepted instance re-encodes to JSON that decodes and validates again, re-encodes
// to the same bytes, and denotes the same JSON value as the original text.
func HRound(idx, variant int) {
	b := &builder{p: &plan{v: variant}}
	b.value(zzSchemas[idx], false)
	v, ok := accept(idx, b.out)
	if !ok {
		return
	}
	e := &jx.Encoder{}
	v.(zzEncoder).Encode(e)
	enc := append([]byte(nil), e.Bytes()...)
	zz.Observe("text", string(b.out))
	zz.Observe("enc", string(enc))
	v2, ok2 := accept(idx, enc)
	zz.Assert(ok2, "the encoding of an accepted value is accepted again")
	if !ok2 {
		return
	}
	zz.Cover("round-trip-completed")
	e2 := &jx.Encoder{}
	v2.(zzEncoder).Encode(e2)
	if hasMap(zzSchemas[idx], 0) {
		same2, err2 := ogenjson.Equal(enc, e2.Bytes())
		zz.Assert(zz.And(err2 == nil, same2), "decode(encode(v)) encodes to the same JSON value (map members in any order)")
	} else {
		zz.Assert(zz.EqBytes(enc, e2.Bytes()), "decode(encode(v)) encodes to the same bytes (equal value)")
	}
	if !b.extra {
		same, err := ogenjson.Equal(b.out, enc)
		zz.Assert(zz.And(err == nil, same), "the encoding denotes the same JSON value as the decoded text (absent/null/present and array contents preserved)")
	}
}
