#!/usr/bin/env python3
"""Schema-matrix driver for C03/C04: named component schemas over the keyword fragment the harness's
reference validator implements, the Go literal of each schema tree, and the case list."""
import sys, json, random
tier = sys.argv[1] if len(sys.argv) > 1 else "quick"
seed = int(sys.argv[2]) if len(sys.argv) > 2 else 0
mode = sys.argv[3] if len(sys.argv) > 3 else "accept"
rng = random.Random(31 + seed)

def I(**kw): return dict(type="integer", **kw)
def S(**kw): return dict(type="string", **kw)
def A(items, **kw): return dict(type="array", items=items, **kw)
def O(props, required=(), **kw): return dict(type="object", properties=props, required=list(required), **kw)
def REF(i): return dict(ref=i)
def ONEOF(*vs): return dict(type="oneOf", oneOf=list(vs))
_disc_n = [0]
def DISC(prop, variants):
    """oneOf of named object components told apart by an explicit discriminator property with a mapping; every
    variant declares the property as a required one-value enum, so JSON Schema semantics and the mapping agree"""
    _disc_n[0] += 1
    alts, names, vals = [], [], []
    for j, var in enumerate(variants):
        val, props, required = var[:3]
        kw = var[3] if len(var) > 3 else {}
        pr = {prop: S(enum=[val])}; pr.update(props)
        alts.append(O(pr, required=[prop] + list(required), **kw))
        names.append("Dv%d%c" % (_disc_n[0], ord('A') + j)); vals.append(val)
    return dict(type="oneOf", oneOf=alts, disc=prop, disc_vals=vals, disc_names=names)
def ALLOF(name, base_props, base_required, extra_required, extra_props=None, base_first=True):
    """allOf[$ref Base, {type: object, required: [...], properties: ...}]: semantic form = the merged object"""
    merged = dict(base_props); merged.update(extra_props or {})
    s = O(merged, required=list(dict.fromkeys(list(base_required) + list(extra_required))))
    second = dict(type="object", required=list(extra_required))
    if extra_props: second["properties"] = extra_props
    s["yaml_allof"] = (name, O(base_props, required=base_required), second, base_first)
    return s

SCHEMAS = [
    I(minimum=1, maximum=10),
    I(minimum=-5, maximum=7, exclusiveMaximum=True, multipleOf=3),
    I(minimum=0, exclusiveMinimum=True),
    I(enum=[1, 5, 12]),
    S(minLength=1, maxLength=2),
    S(enum=["a", "bc"]),
    A(I(minimum=2), minItems=1, maxItems=2),
    A(I(), uniqueItems=True),
    A(S(maxLength=1), maxItems=2),
    O({"a": I(minimum=1, maximum=10), "b": S(maxLength=2), "c": I(nullable=True), "d": A(I(), maxItems=2, uniqueItems=True)}, required=["a"]),
    O({"a": I(), "b": dict(type="boolean")}, required=["a", "b"], additionalProperties=False),
    O({"x": O({"y": I(maximum=5)}, required=["y"]), "z": S(nullable=True)}, required=["x"]),
    O({"f%d" % i: I() for i in range(10)}, required=["f0", "f7", "f8", "f9"]),
    O({"f%d" % i: dict(type="boolean") for i in range(18)}, required=["f0", "f8", "f15", "f16", "f17"]),
    O({"n": S(minLength=1, nullable=True), "m": A(S(minLength=1), minItems=1)}, required=["n"]),
    # required AND nullable members without further validation (presence is decided by the required mask alone), also in the second mask byte
    O({"r": I(nullable=True), "k": I(), "s": S(nullable=True)}, required=["r", "s"]),
    O(dict([("g%d" % i, I()) for i in range(9)] + [("rn", I(nullable=True)), ("sn", S(nullable=True))]), required=["g0", "rn", "sn"]),
    # arrays of objects whose members are optional / nullable (element state must not leak between elements)
    A(O({"a": I(), "b": S(maxLength=2), "c": I(nullable=True)}, required=["a"]), maxItems=3),
    O({"items": A(O({"p": S(), "q": A(I())}, required=[])), "t": I()}, required=["items"]),
    # uniqueItems combined with length bounds
    A(I(), uniqueItems=True, maxItems=3, minItems=1),
    # recursive schemas: the self-referencing member is declared BEFORE the first member that carries a validator
    O({"next": REF(20), "value": I(minimum=0, maximum=50), "tag": S(maxLength=1)}, required=[]),
    O({"children": A(REF(21), maxItems=2), "name": S(minLength=1)}, required=["name"]),
    O({"value": I(minimum=0, maximum=50), "next": REF(22)}, required=["value"]),
    # allOf: a branch that only lists required members of the other branch; both orders; a branch with own properties
    ALLOF("B23", {"id": I(), "name": S(maxLength=2), "note": S()}, [], ["id", "name"]),
    ALLOF("B24", {"id": I(minimum=1), "name": S()}, ["id"], ["name"], base_first=False),
    ALLOF("B25", {"id": I(), "k": I(maximum=9)}, ["id"], ["k", "x"], extra_props={"x": S(minLength=1)}),
    # maps: a pure map, declared members plus typed additional members
    O({}, additionalProperties=S(maxLength=2)),
    O({"id": I(minimum=0)}, required=["id"], additionalProperties=I(maximum=50)),
    O({}, additionalProperties=S(format="uint64")),
    # string-formatted unsigned integers: required, optional/nullable (and as map values above)
    O({"u": S(format="uint64"), "o": S(format="uint64", nullable=True)}, required=["u"]),
    # sum types: by JSON type; objects told apart by members of their own (the first unique member of the second
    # variant is optional), also as a member and inside an array
    ONEOF(S(maxLength=2), I(minimum=0)),
    ONEOF(O({"a": I()}, required=["a"]), O({"c": I(maximum=5), "b": S(), "d": dict(type="boolean")}, required=["b"])),
    O({"u": ONEOF(O({"a": I()}, required=["a"]), O({"c": I(), "b": S()}, required=["b"])), "l": A(ONEOF(S(), I()), maxItems=2)}, required=[]),
    # zero upper bounds (a bound of 0 is a bound, not "unset") and property counts of maps
    A(I(), maxItems=0),
    S(maxLength=0),
    O({"e": A(S(maxLength=0), maxItems=1), "z": A(I(), maxItems=0)}, required=[]),
    O({}, additionalProperties=I(), maxProperties=0),
    O({}, additionalProperties=S(maxLength=1), minProperties=1, maxProperties=1),
    # a JSON number member next to string-formatted float members, all optional (their generic Opt wrappers must stay distinct)
    # sum types with an explicit discriminator (mapping to named components): at top level, as a member, with a variant
    # that has no member besides the discriminator and one that allows typed additional members
    DISC("kind", [("cat", {"lives": I(minimum=0, maximum=9)}, ["lives"]), ("dog", {"name": S(maxLength=2), "age": I()}, [])]),
    O({"pet": DISC("t", [("a", {}, []), ("b", {"n": I()}, ["n"])]), "id": I()}, required=["id"]),
    DISC("k", [("m", {}, [], dict(additionalProperties=I(maximum=50))), ("o", {"w": S(maxLength=1)}, [])]),
    # unix timestamps as JSON numbers (milliseconds far beyond the int64-nanosecond window included)
    O({"ms": I(format="unix-milli"), "s": I(format="unix-seconds"), "oms": I(format="unix-milli", nullable=True)}, required=["ms"]),
    O({"ratio": dict(type="number", format="float"), "price": S(format="float32"), "wide": dict(type="number", format="double"), "cost": S(format="float64")}, required=[]),
]

EXTRA_COMPONENTS = []
def yaml_schema(s, ind):
    pad = " " * ind
    L = []
    if "ref" in s:
        return [pad + "$ref: '#/components/schemas/Sc%02d'" % s["ref"]]
    if "yaml_allof" in s:
        name, base, second, base_first = s["yaml_allof"]
        EXTRA_COMPONENTS.append((name, base))
        branches = [[pad + "  - $ref: '#/components/schemas/%s'" % name], [pad + "  - " + yaml_schema(second, 0)[0]] + [pad + "    " + l for l in yaml_schema(second, 0)[1:]]]
        if not base_first: branches.reverse()
        return [pad + "allOf:"] + branches[0] + branches[1]
    if "disc" in s:
        L.append(pad + "oneOf:")
        for name, alt in zip(s["disc_names"], s["oneOf"]):
            EXTRA_COMPONENTS.append((name, alt))
            L.append(pad + "  - $ref: '#/components/schemas/%s'" % name)
        L.append(pad + "discriminator:")
        L.append(pad + "  propertyName: %s" % s["disc"])
        L.append(pad + "  mapping: {%s}" % ", ".join("%s: '#/components/schemas/%s'" % (v, n) for v, n in zip(s["disc_vals"], s["disc_names"])))
        return L
    if "oneOf" in s:
        L.append(pad + "oneOf:")
        for v in s["oneOf"]:
            sub = yaml_schema(v, 0)
            L.append(pad + "  - " + sub[0])
            L += [pad + "    " + l for l in sub[1:]]
        return L
    for k, v in s.items():
        if k == "additionalProperties" and isinstance(v, dict):
            L.append(pad + "additionalProperties:")
            L += yaml_schema(v, ind + 2)
            continue
        if k == "properties" and not v:
            continue
        if k == "properties":
            L.append(pad + "properties:")
            for pn, ps in v.items():
                L.append(pad + "  %s:" % pn)
                L += yaml_schema(ps, ind + 4)
        elif k == "items":
            L.append(pad + "items:")
            L += yaml_schema(v, ind + 2)
        elif isinstance(v, bool):
            L.append(pad + "%s: %s" % (k, "true" if v else "false"))
        elif isinstance(v, list):
            L.append(pad + "%s: %s" % (k, json.dumps(v)))
        else:
            L.append(pad + "%s: %s" % (k, json.dumps(v) if isinstance(v, str) else v))
    return L

def go_schema(s):
    if "ref" in s:
        return "&zzSchema{Ref: %d}" % (s["ref"] + 1)
    if "disc" in s:
        return "&zzSchema{OneOf: []*zzSchema{%s}, Disc: %s}" % (", ".join(go_schema(v) for v in s["oneOf"]), json.dumps(s["disc"]))
    if "oneOf" in s:
        return "&zzSchema{OneOf: []*zzSchema{%s}}" % ", ".join(go_schema(v) for v in s["oneOf"])
    f = ["Type: %s" % json.dumps(s["type"])]
    if "format" in s: f.append("Format: %s" % json.dumps(s["format"]))
    if isinstance(s.get("additionalProperties"), dict): f.append("Addl: %s" % go_schema(s["additionalProperties"]))
    if s.get("nullable"): f.append("Nullable: true")
    if "minimum" in s: f.append("Min: zzI64(%d)" % s["minimum"])
    if "maximum" in s: f.append("Max: zzI64(%d)" % s["maximum"])
    if s.get("exclusiveMinimum"): f.append("ExclMin: true")
    if s.get("exclusiveMaximum"): f.append("ExclMax: true")
    if "multipleOf" in s: f.append("MultipleOf: %d" % s["multipleOf"])
    if "minLength" in s: f.append("MinLen: zzInt(%d)" % s["minLength"])
    if "maxLength" in s: f.append("MaxLen: zzInt(%d)" % s["maxLength"])
    if "enum" in s:
        if s["type"] == "string": f.append("Enum: []string{%s}" % ", ".join(json.dumps(e) for e in s["enum"]))
        else: f.append("EnumInt: []int64{%s}" % ", ".join(str(e) for e in s["enum"]))
    if "items" in s: f.append("Items: %s" % go_schema(s["items"]))
    if "minItems" in s: f.append("MinItems: zzInt(%d)" % s["minItems"])
    if "maxItems" in s: f.append("MaxItems: zzInt(%d)" % s["maxItems"])
    if s.get("uniqueItems"): f.append("Unique: true")
    if "properties" in s:
        ps = ", ".join("{Name: %s, Required: %s, S: %s}" % (json.dumps(n), "true" if n in s.get("required", []) else "false", go_schema(p)) for n, p in s["properties"].items())
        f.append("Props: []zzProp{%s}" % ps)
    if s.get("additionalProperties") is False: f.append("AddlFalse: true")
    if "minProperties" in s: f.append("MinProps: zzInt(%d)" % s["minProperties"])
    if "maxProperties" in s: f.append("MaxProps: zzInt(%d)" % s["maxProperties"])
    return "&zzSchema{%s}" % ", ".join(f)

L = ["openapi: 3.0.3", "info: {title: t, version: '1'}", "paths:"]
for i in range(len(SCHEMAS)):
    L += ["  /s%d:" % i, "    post:", "      operationId: postS%d" % i,
          "      requestBody: {required: true, content: {application/json: {schema: {$ref: '#/components/schemas/Sc%02d'}}}}" % i,
          "      responses: {'200': {description: ok, content: {application/json: {schema: {$ref: '#/components/schemas/Sc%02d'}}}}}" % i]
L += ["components:", "  schemas:"]
for i, s in enumerate(SCHEMAS):
    L.append("    Sc%02d:" % i)  # two-digit names: an enum constant of Sc03 (Sc031) cannot coincide with a schema name
    L += yaml_schema(s, 6)
for name, base in EXTRA_COMPONENTS:
    L.append("    %s:" % name)
    L += yaml_schema(base, 6)
spec = "\n".join(L) + "\n"
data = ["package PKGNAME", "", "var zzSchemas = []*zzSchema{"] + ["\t%s," % go_schema(s) for s in SCHEMAS] + ["}", "", "func zzNew(i int) any {", "\tswitch i {"]
for i in range(len(SCHEMAS)):
    data += ["\tcase %d:" % i, "\t\treturn new(Sc%02d)" % i]
data += ["\t}", "\tpanic(\"bad schema index\")", "}"]
nvar = (24 if mode == "accept" else 16) if tier == "quick" else (150 if mode == "accept" else 60)
acc, rnd = [], []
for i in range(len(SCHEMAS)):
    vs = list(range(12)) + [rng.randrange(0, 200000) for _ in range(nvar - 12)]
    for v in vs:
        acc.append([0, i, v])
        rnd.append([0, i, v])
print(json.dumps({"packages": [{"name": "sm", "spec": spec, "extra_go": {"data.go": "\n".join(data) + "\n"}}],
                  "cases": {tier: ([{"entry": "HAccept", "args": acc}] if mode == "accept" else [{"entry": "HRound", "args": rnd}])},
                  "bounds": {"schemas": "%d named schemas: integer bounds (inclusive/exclusive/negative), multipleOf, integer and string enums, string length, arrays (min/max/uniqueItems, nested item validation), objects (required/optional/nullable members, additionalProperties:false, nesting, 10 and 18 members so the required mask spans 2 and 3 bytes), three recursive schemas (member / array-item self reference, unfolded to depth 2) and three allOf schemas (a branch that only lists required members of the other, both orders, a branch with own properties), two map schemas (additionalProperties with a schema), string-formatted uint64 members (1-2 digits, or nineteen digits around 2^63 with the last three symbolic; every uint64 is C13's subject), unix-milli / unix-seconds members (one digit or a 14-digit count with two symbolic digits), a JSON number and string-formatted floats (concrete literals), two discriminator sums (top level and as a member; unknown, missing and mistyped discriminator values), and three sum types (by JSON type; objects told apart by their own members - incl. instances that carry the required members of two variants and must be refused; as member and array item), zero upper bounds (maxItems / maxLength / maxProperties 0) and property counts of maps" % len(SCHEMAS),
                             "instances": "%d schema-directed instance skeletons per schema (valid instances, dropped required member, wrong type, null, undeclared member; 0..3 array items; optional members present/absent/null) with symbolic leaves: every digit of 1-2 digit integers with optional sign, every printable-ASCII string byte (0..2 bytes plus a two-byte rune), every boolean" % nvar}}))
