package jsonpointer

// C16 harness: jsonpointer.Resolve against an RFC 6901 evaluator written here,
// over yaml.Node skeletons with symbolic member names and a fully symbolic
// pointer (plain or URI-fragment spelling).

import (
	"github.com/go-faster/yaml"

	zz "github.com/ogen-go/ogen/internal/zzverif"
)

var ZZEntries = map[string]func([]int){
	"HResolve": func(a []int) { HResolve(a[0], a[1], a[2]) },
	"HWindow":  func(a []int) { HWindow(a[0], a[1], a[2], a[3]) },
	"HLongIndex": func(a []int) { HLongIndex(a[0], a[1]) },
}

// base pointers (valid, to every kind of node, in both spellings) for the
// window mode: a window of k symbolic bytes replaces base[pos:pos+k].
var basePointers = map[int][]string{
	1: {"/a/2/k", "#/a/2/k", "/a/10"},
	2: {"/10", "#/9"},
	3: {"/", "/0", "/a~1b", "/m~0n", "/~01", "/01", "/%41", "/A/1", "#/", "#/a~1b", "#/m~0n", "#/%2541", "#/A/0", "#/%7E01"},
	5: {"/k1/k2/k3", "#/k1/k2/k3"},
}

func scalar(v string) *yaml.Node { return &yaml.Node{Kind: yaml.ScalarNode, Value: v} }
func mapping(kv ...*yaml.Node) *yaml.Node {
	return &yaml.Node{Kind: yaml.MappingNode, Content: kv}
}
func sequence(e ...*yaml.Node) *yaml.Node { return &yaml.Node{Kind: yaml.SequenceNode, Content: e} }

// oracle classes
const (
	cOK = iota
	cNotFound
	cBadTilde
	cLeadingZero
	cBadSyntax
)

func refHexVal(c byte) (byte, bool) {
	switch {
	case '0' <= c && c <= '9':
		return c - '0', true
	case 'a' <= c && c <= 'f':
		return c - 'a' + 10, true
	case 'A' <= c && c <= 'F':
		return c - 'A' + 10, true
	}
	return 0, false
}

// refPctDecode: RFC 3986 percent-decoding of a URI fragment.
func refPctDecode(s string) (string, bool) {
	var out []byte
	for i := 0; i < len(s); {
		if s[i] != '%' {
			out = append(out, s[i])
			i++
			continue
		}
		if i+2 >= len(s) {
			return "", false
		}
		h, ok1 := refHexVal(s[i+1])
		l, ok2 := refHexVal(s[i+2])
		if !ok1 || !ok2 {
			return "", false
		}
		out = append(out, h<<4|l)
		i += 3
	}
	return string(out), true
}

// refToken unescapes one reference token (RFC 6901 section 4); ok=false when a
// '~' is not followed by '0' or '1' (section 3 syntax).
func refToken(t string) (string, bool) {
	var out []byte
	for i := 0; i < len(t); i++ {
		if t[i] != '~' {
			out = append(out, t[i])
			continue
		}
		if i+1 >= len(t) {
			return "", false
		}
		switch t[i+1] {
		case '0':
			out = append(out, '~')
		case '1':
			out = append(out, '/')
		default:
			return "", false
		}
		i++
	}
	return string(out), true
}

// refIndex parses an array index: "0" or a digit string without leading zero.
func refIndex(t string) (int, int) {
	if len(t) == 0 {
		return 0, cNotFound
	}
	n := 0
	for i := 0; i < len(t); i++ {
		if t[i] < '0' || t[i] > '9' {
			return 0, cNotFound
		}
		n = n*10 + int(t[i]-'0')
	}
	if len(t) > 1 && t[0] == '0' {
		return 0, cLeadingZero
	}
	return n, cOK
}

func refEval(p string, node *yaml.Node) (*yaml.Node, int) {
	if p == "" {
		return node, cOK
	}
	if p[0] != '/' {
		return nil, cBadSyntax
	}
	p = p[1:]
	// split on '/'
	var toks []string
	start := 0
	for i := 0; i < len(p); i++ {
		if p[i] == '/' {
			toks = append(toks, p[start:i])
			start = i + 1
		}
	}
	toks = append(toks, p[start:])
	for _, raw := range toks {
		tok, ok := refToken(raw)
		if !ok {
			return nil, cBadTilde
		}
		switch node.Kind {
		case yaml.MappingNode:
			var found *yaml.Node
			for i := 0; i+1 < len(node.Content); i += 2 {
				if found == nil && node.Content[i].Value == tok {
					found = node.Content[i+1]
				}
			}
			if found == nil {
				return nil, cNotFound
			}
			node = found
		case yaml.SequenceNode:
			idx, class := refIndex(tok)
			if class != cOK {
				return nil, class
			}
			if idx >= len(node.Content) {
				return nil, cNotFound
			}
			node = node.Content[idx]
		default:
			return nil, cNotFound
		}
	}
	return node, cOK
}

func refResolve(ptr string, root *yaml.Node) (*yaml.Node, int) {
	if root.Kind == yaml.DocumentNode && len(root.Content) > 0 {
		root = root.Content[0]
	}
	if ptr == "" {
		return root, cOK
	}
	if ptr[0] == '#' {
		dec, ok := refPctDecode(ptr[1:])
		if !ok {
			return nil, cBadSyntax
		}
		return refEval(dec, root)
	}
	return refEval(ptr, root)
}

func buildDoc(skel, klen int) *yaml.Node {
	switch skel {
	case 0: // mapping with two symbolic names
		k1, k2 := zz.String(klen), zz.String(klen)
		zz.Assume(k1 != k2)
		return mapping(scalar(k1), scalar("v1"), scalar(k2), scalar("v2"))
	case 1: // mapping -> sequence -> mapping
		k := zz.String(klen)
		return mapping(scalar("a"), sequence(scalar("e0"), scalar("e1"), mapping(scalar(k), scalar("deep"))))
	case 2: // sequence of 11 (two-digit indices)
		var e []*yaml.Node
		for i := 0; i < 11; i++ {
			e = append(e, scalar("e"))
		}
		return sequence(e...)
	case 3: // document wrapper, adversarial concrete names
		return &yaml.Node{Kind: yaml.DocumentNode, Content: []*yaml.Node{
			mapping(scalar(""), scalar("empty"), scalar("0"), scalar("zero"), scalar("a/b"), scalar("slash"),
				scalar("m~n"), scalar("tilde"), scalar("~1"), scalar("t1"), scalar("01"), scalar("lz"), scalar("%41"), scalar("pct"),
				scalar("A"), sequence(scalar("x"), scalar("y")))}}
	case 5: // nested depth 3, concrete names
		return mapping(scalar("k1"), mapping(scalar("k2"), mapping(scalar("k3"), scalar("leaf")), scalar("k3"), scalar("decoy")), scalar("k2"), scalar("decoy"))
	case 4: // nested depth 3, one-byte symbolic names
		k1, k2, k3 := zz.String(klen), zz.String(klen), zz.String(klen)
		return mapping(scalar(k1), mapping(scalar(k2), mapping(scalar(k3), scalar("leaf"))))
	}
	panic("bad skeleton")
}

func HWindow(skel, base, pos, k int) {
	bs := basePointers[skel]
	if base >= len(bs) || pos+k > len(bs[base]) {
		return
	}
	b := bs[base]
	doc := buildDoc(skel, 1)
	check(doc, b[:pos]+zz.String(k)+b[pos+k:])
	zz.Cover("window-case-ran")
}

// HLongIndex: an array index token of n decimal digits (no leading zero) applied to an 11-element sequence,
// directly (depth 0) or below a member (depth 1): for n >= 3 no such element exists, whatever the digits -
// in particular none of the 20-digit values at or beyond 2^64 may wrap around to a small index.
func HLongIndex(n, depth int) {
	var e []*yaml.Node
	for i := 0; i < 11; i++ {
		e = append(e, scalar("e"))
	}
	doc := sequence(e...)
	d := zz.String(n)
	for i := 0; i < n; i++ {
		zz.Assume(zz.And(d[i] >= '0', d[i] <= '9'))
	}
	zz.Assume(d[0] != '0')
	ptr := "/" + d
	if depth == 1 {
		doc = mapping(scalar("arr"), doc)
		ptr = "/arr/" + d
	}
	_, err := Resolve(ptr, doc)
	zz.Cover("long-index-ran")
	zz.Assert(err != nil, "an index of three or more digits designates no element of an 11-element array")
}

func HResolve(skel, n, klen int) {
	doc := buildDoc(skel, klen)
	check(doc, zz.String(n))
}

func check(doc *yaml.Node, ptr string) {
	n := len(ptr)
	got, err := Resolve(ptr, doc)
	if ptr != "" && ptr[0] != '/' && ptr[0] != '#' {
		// other spellings (relative references): only totality is claimed
		zz.Cover("other-spelling")
		return
	}
	want, class := refResolve(ptr, doc)
	zz.Known("C16/bad-tilde-escape", class == cBadTilde)
	if class == cOK {
		zz.Cover("oracle-designates-node")
		if n > 0 && ptr[0] == '#' {
			zz.Cover("fragment-form-designates-node")
		}
		zz.Assert(err == nil, "pointer designating a node resolves without error")
		zz.Assert(got == want, "resolution returns exactly the node RFC 6901 designates")
		return
	}
	zz.Cover("oracle-designates-nothing")
	zz.Assert(err != nil, "pointer designating no node (or ill-formed) yields an error, never a node")
}
