#!/bin/sh
# usage: run_seed.sh <seed-dir> <check-id>...   applies the seeded patch to /repo, runs the quick checks, undoes it.
SEED=$1; shift
cd /repo && git diff --quiet || { echo "/repo dirty"; exit 2; }
git -C /repo apply "$SEED/patch.diff" || exit 2
export VERIF_SEED=${VERIF_SEED:-1}
for id in "$@"; do
  cmd=$(python3 -c "import json;print([c['quick_cmd'] for c in json.load(open('/verif/MANIFEST.json'))['checks'] if c['property_id']=='$id'][0])")
  s=$(date +%s)
  SYMGO_REPO=/repo SYMGO_OUT=/var/tmp/seedrun-out sh -c "$cmd ${TIER:+--tier $TIER}" > /var/tmp/seedrun_$(basename $SEED)_$id.log 2>&1
  echo "SEED $(basename $SEED) check=$id exit=$? wall=$(( $(date +%s) - s ))s viol=$(grep -c '^VIOLATION' /var/tmp/seedrun_$(basename $SEED)_$id.log) inconcl=$(grep -c '^INCONCLUSIVE' /var/tmp/seedrun_$(basename $SEED)_$id.log)"
  grep '^VIOLATION' /var/tmp/seedrun_$(basename $SEED)_$id.log | head -3
done
git -C /repo checkout -- .
git -C /repo status --short | head -3
