#!/usr/bin/env python3
"""Regenerates /verif/MANIFEST.json from the table below (kept here so the
manifest stays valid and uniform). Run: python3 tools/mkmanifest.py"""
import json, os

TRUST = ("go/ssa construction; this interpreter's reading of the SSA instruction set; the models of assembly/runtime/formatting "
         "functions listed in DESIGN.md 2.5 (each run's evidence lists those it hit); z3 5.1.0 pipe with z3 4.8.12 / cvc5 1.0.3 "
         "fall-back and, in the thorough tier, cross-checking of every unsat assertion verdict; every sat model is replayed "
         "against the native build before it is reported")

CHECKS = {
 "C12": dict(
   text="Bounded symbolic model checking of the real uri.NormalizeEscapedPath (go/ssa of /repo's working tree): for EVERY string of "
        "length 0..7 (quick) / 0..9 (thorough), all 256 byte values per position, the solver shows no input panics, ok is true exactly "
        "when every % starts a valid escape, the result decodes to the same octets, kept escapes are upper-case and necessary, literal/"
        "escaped slashes are not exchanged, normalising is idempotent, only escapes of unreserved bytes are removed, and invalid input yields \"\". Holds within the length bound only.",
   design="4 C12", technique="symbolic execution of go/ssa + SMT (bit-vectors), all inputs within a length bound"),
 "C16": dict(
   text="Bounded symbolic model checking of the real jsonpointer.Resolve/find/findIdx/findKey/unescape/splitFunc (plus net/url.PathUnescape, "
        "strconv.ParseUint, strings.genericReplacer from SSA) against an RFC 6901 evaluator written in the harness: node identity must agree "
        "and ill-formed or dangling pointers must error. Pointer bytes are fully symbolic (all 256 values) up to length 4 (quick) / 5 (thorough), "
        "and additionally every valid base pointer of 6 document skeletons, in both spellings, carries a window of 1..3 symbolic bytes at every "
        "position; index tokens of 3..21 arbitrary digits (the wrap-around region at 2^64); member names are symbolic. Holds within those bounds only; the tilde-leniency defect is carried as a known finding.",
   design="4 C16", technique="symbolic execution of go/ssa + SMT, differential against an RFC 6901 reference evaluator"),
 "C06": dict(
   text="Bounded symbolic model checking of the real uri.*Encoder/*Decoder, cookie escaping, net/url escaping, url.Values.Encode/ParseQuery, "
        "http.Header and cookie code, driven exactly as generated code drives them. All 48 (location, style, explode, shape) entries are classified by "
        "the real validateParamStyle AND the generator's real isSupportedParamStyle, both executed from SSA (the latter reached through go:linkname natively and redirected to its SSA body under the engine), and every admitted one is checked for: no panic, decode(encode(v)) is v or an error, core-domain "
        "values always delivered, delimiter-bearing values refused, wire text equal to a reference written from the OpenAPI 3.0.3 style table; values are "
        "symbolic bytes (all 256 values) within small stated length/item bounds. Two empty-collection defects are carried as known findings.",
   design="4 C06", technique="symbolic execution of go/ssa + SMT, round-trip and reference-serializer assertions over a completely enumerated style table"),
 "C13": dict(
   text="Bounded symbolic model checking of the real conv.XToString/ToX pairs and the json Encode*/Decode* helpers with everything they call (strconv "
        "FormatInt/ParseInt/ParseUint/Atoi, uuid String/Parse, net.ParseMAC, netip v4, time.Unix*/UnixMilli/UnixMicro, jx): for EVERY value - one full-width "
        "symbolic variable per type - the text has the format's syntax and parses back to the same value. int8..int64/uint8..uint64/int/uint and bool: every value "
        "(wide integers split into digit-count x sign classes; quick runs a subset of the classes incl. the 10/19/20-digit ones, thorough all); UUID all 2^128; IPv4 all 2^32; MAC length 6 "
        "all 2^48; unix seconds/milli/micro/nano both directions (string forms and conv pairs end to end; the JSON NUMBER form in halves that meet at the decimal text: every canonical decimal of 1..19 digits decodes to exactly that instant, and every int64 instant is written as the JSON number of its unit count; that jx's number writer equals strconv's text is decided to 13 digits only); "
        "json.EncodeDuration equals time.Duration.String for every int64; six IPv6 address shapes with symbolic groups; date / time / date-time through time.Format + time.Parse (json and conv): the decoding side for ALL texts of the format's shape (arbitrary digits, Z and +-hh:mm offsets) against the harness's own calendar rule, and the encode->decode composition for a symbolic instant per class of years (quick: year 2000 for date, 2000 UTC and 2024 at +05:30 / -08:00 for date-time, all 86400 seconds for time; thorough: also the years 1999 and 0000 and a second zone offset) with the zone offset a concrete case parameter. "
        "NOT covered: floats, fractional seconds, custom layouts, duration decoding, URL, other IPv6 addresses, big.*, the jx number writer beyond 13 digits.",
   design="4 C13", technique="symbolic execution of go/ssa + SMT; wide div/mod chains via a self-checked bit-vector-to-integer translation"),
 "C18": dict(
   text="Bounded symbolic model checking of the real json.Equal with the jx decoder underneath: pairs and triples of JSON texts built from 31 value templates whose leaves "
        "(digits, string bytes, escape spellings, member names, whitespace bytes) are symbolic; asserts no error on well-formed texts, reflexivity, symmetry, transitivity and "
        "agreement with equality of the denoted abstract values (objects unordered; objects of up to three members with independent names, so a repeated name around a distinct one is inside); single-byte corruption for totality; and the enum clause: the REAL jsonschema (*Parser).Parse on a schema whose enum holds two or three members of six shapes with symbolic leaves and whitespace is refused as a duplicate exactly when two members denote the same value. Structure and integer numbers only: "
        "number spellings with '.', 'e', 'E' (ParseFloat/big.Rat) are outside and NOT decided.",
   design="4 C18", technique="symbolic execution of go/ssa + SMT, differential against abstract-value equality"),
 "C03": dict(
   text="Bounded symbolic model checking of (a) the validate.* kernels with fully symbolic parameters (validate.Int incl. multipleOf against an independently formulated reference; "
        "count validators; String length in code points; UniqueItems) and (b) the Decode + Validate code GENERATED in this run for a matrix of 43 named schemas (integer bounds incl. "
        "exclusive/negative, multipleOf, enums, string length, arrays with min/max/uniqueItems and item validation, objects with required/optional/nullable members, "
        "additionalProperties:false, nesting, 10- and 18-member objects for the multi-byte required mask, three recursive schemas unfolded to depth 2, three allOf schemas, two maps, string-formatted uint64 members, three discriminator sums (explicit mapping; top level, as a member, a variant with only the discriminator plus typed additional members; unknown / missing / mistyped discriminator values), three inferred sum types incl. instances that carry the required members of two variants (exactly-one reference), zero upper bounds, property counts of maps, a JSON number and string-formatted float members with CONCRETE literals, unix timestamps as JSON numbers incl. 14-digit millisecond counts, uint64 strings around 2^63): schema-directed JSON texts (valid instances and single-keyword mutants) with "
        "symbolic leaves are accepted exactly when a reference validator over the abstract value says valid. Two defects (absent optional array with minItems; name-based sum inference refusing value-discriminated documents) are carried as known findings. "
        "Symbolic floats, pattern, anyOf and deeper recursion are outside.",
   design="4 C03", technique="symbolic execution of go/ssa (runtime kernels and generated code) + SMT, differential against a reference validator"),
 "C04": dict(
   text="Bounded symbolic model checking of the Encode/Decode code GENERATED in this run for the C03 schema matrix: every accepted instance (symbolic leaves) is re-encoded; the "
        "encoding must be accepted again, decode(encode(v)) must re-encode to the same bytes, and the encoding must denote the same JSON value as the decoded text (so absent/null/"
        "present states and array contents are preserved). Values are reached by decoding, equality is observed through encodings and json.Equal; symbolic floats, anyOf, deeper recursion outside.",
   design="4 C04", technique="symbolic execution of generated Go (go/ssa) + SMT, round-trip assertions over symbolic JSON leaves"),
 "C09": dict(
   text="Bounded symbolic model checking of (a) internal/bitset.Set/Build and ir.JSONFields.RequiredMask (one step from an arbitrary state; byte boundaries to 20/33 members), "
        "(b) the security gate GENERATED in this run from /repo's templates: every requirement structure over 2 schemes, 12 seeded (thorough: all 255) over 3 schemes, global security "
        "with overrides / explicit empty / anonymous alternative, 20 declared schemes, five operations with an alternative that needs an unimplemented scheme type (openIdConnect; generated with ignore_not_implemented - the remaining alternatives must stay enforced), and operations that mention 9..12 distinct schemes so that their requirement masks have two bytes; per request the presence of each credential and the SecurityHandler verdict "
        "(accept / skip / error) are symbolic; asserts handler-runs => some alternative fully accepted, refused => 401 and one response, unmentioned schemes never consulted, and the 'if' "
        "direction outside the recorded fail-closed finding; (c) credential transport client->server for apiKey header/query/cookie, bearer, basic (real base64), oauth2 scopes with symbolic tokens.",
   design="4 C09", technique="symbolic execution of generated Go (go/ssa) + SMT; requirement structures enumerated, request dimension symbolic"),
 "C20": dict(
   text="Bounded symbolic model checking of cmd/ogen's real generate() and cleanDir(): under the engine the environment (ogen.Parse, gen.NewGenerator, WriteSource, os.ReadDir/"
        "MkdirAll/Remove) is replaced by recording stubs with nondeterministic outcomes - failing stage, clean flag, target listing/absent/unreadable and fully symbolic file names "
        "(3-14 bytes, plus near-miss frames of 11-20 bytes; thorough 3-20) with symbolic IsDir; asserts a pre-write failure returns an error and performs no remove/mkdir/write, an unreadable target aborts before any "
        "mutation, and cleaning removes exactly the listed regular files matching oas*/openapi* and *_gen.go/*_gen_test.go. The same harness stages a real scratch directory natively, so "
        "every model replays against the real build. run()'s flag/config stages are outside.",
   design="4 C20", technique="symbolic execution of go/ssa with nondeterministic environment stubs + SMT; native replay on a real scratch directory"),
 "C05": dict(
   text="Bounded symbolic model checking of routers GENERATED in this run by the real generator from /repo's templates (10 curated + 10 (quick) / 120 (thorough) seeded "
        "route sets over a small segment grammar; the route-set dimension is enumerated, not solved). For every request path '/'+0..4 (7) fully symbolic bytes, methods "
        "GET/POST/PUT(/OPTIONS), with and without a path prefix, for every template instantiated with symbolic argument values, and for template instances written with "
        "percent-escapes as RawPath, the real FindPath and ServeHTTP are executed and compared with a reference matcher built from the templates: method and template-instance "
        "soundness (P1), no slash in arguments (P1'), static-beats-templated (P2), completeness for values avoiding slashes/tail characters (P3, with the 405-by-more-specific-"
        "template clause), 404/405/Allow (P4), lookup-vs-serving agreement with and without prefix (P5); with a configured prefix the same escaped request with the PREFIX spelled with a needless escape must be routed to the same operation with the same arguments (C12's consequence for routing). Three router defects are carried as known findings with input-region keys.",
   design="4 C05", technique="symbolic execution of generated Go (go/ssa) + SMT, differential against a template-derived reference matcher"),
 "C02": dict(
   text="KERNEL CLAIM plus a concrete side-condition. Solver-decided: bounded symbolic model checking of the identifier synthesis in gen/names.go (pascal, pascalSpecial, pascalNonEmpty, camel, "
        "camelSpecial, cleanSpecial with go/token.IsIdentifier, unicode case mapping and the naming rule table executed from SSA): for every ASCII name of 0..3 (4) bytes the result is an error or satisfies "
        "the Go identifier grammar, is not a keyword and not '_'. NOT solver-decided (no symbolic dimension; the whole generator and the Go type checker are out of reach): a matrix of about 180 hostile/feature specs "
        "(names, enum edge values, shared generic responses, object-shaped parameters per location/style, pattern+default responses, 10 feature configurations incl. client-only / server-only / validation / "
        "example tests, and a family of format x keyword mixes on one property) is generated by the tree's generator in every run and every accepted package - and its generated tests - must go build; a generator panic counts as a violation. Nine known findings.",
   design="4 C02", technique="symbolic execution of go/ssa + SMT over all short names (kernel); concrete generate-and-build matrix as a side-condition"),
 "C07": dict(
   text="Bounded symbolic model checking of (a) jsonpointer.ResolveCtx (the cycle/depth mechanism): from every pre-state with 0..3 distinct in-progress references built through the real AddKey, one "
        "AddKey/Delete with a symbolic key refuses exactly in-progress keys and over-deep nesting, keeps the representation invariant, and Delete restores the pre-state; Key() at the root keys a local "
        "reference by (root, text); (b) the real parser.Parse on one API written as a root plus an external document with 10 reference sites (into the other file, root-relative after a reference into the other "
        "file, relative inside the external file, shared targets, recursive schemas) plus two security schemes given as references (to a scheme of the root and to a same-named scheme of the other file): for every symbolic keep/inline choice (subsets of the 12 sites quick, all 4096 thorough) the parsed API is the same, same-named "
        "components of the two files (names symbolic) are not confused, reference cycles between non-schema components and dangling references are refused, schema cycles and the same pointer in two files are "
        "accepted; Parse -> parser.Expand -> Parse gives the same API (dereferenced-spec clause, recursive schemas included). One hand-written reference graph; external SCHEMA references and the generated code "
        "for referenced vs inlined documents are NOT decided. Concrete side-condition (not solver-decided): 53 schema-cycle shapes are generated by the tree's generator and must build (recursive types), and six NON-cyclic diamonds (one component reached twice from one allOf / oneOf / property list, in both orders) must be accepted - a refusal is reported as a violation.",
   design="4 C07", technique="symbolic execution of go/ssa + SMT: one inductive step of the cycle/depth kernel from reachable pre-states; parser.Parse / Expand under symbolic inline choices and component names with stubbed YAML environment; concrete generate-and-build of cycle shapes"),
 "C11": dict(
   text="Bounded symbolic model checking of totality (no panic, termination) of the parser: (a) parser.Parse executed from SSA on a valid OpenAPI 3.1 skeleton that uses every component kind, where a "
        "symbolic selector applies one of 66 single-node faults (null / empty / dropped part) and, separately, 19 scalar fields (status key, parameter location/style/name, media-type key, schema type/format, "
        "reference text, security type/in/scheme, server URL, version ...) are arbitrary strings of 0..2 (3) bytes or a vocabulary keyword with its last two bytes arbitrary; (b) parser.pathID and parsePath with real "
        "url.Parse and pathParser on every byte string of 0..3 (5) bytes with and without a leading slash; (c) uri.NormalizeEscapedPath on every string of 0..6 (8) bytes; (d) jsonpointer.Resolve on arbitrary short pointers and on index tokens of up to 21 (22) digits. Cyclic parameter schemas are among the faults (unbounded recursion is reported when the native run dies of stack exhaustion). A path that exhausts the instruction budget "
        "is replayed natively under a time limit and reported as non-termination only when the native build does not finish either. NOT solver-decided (concrete side-condition, like C02's build matrix): three documents (about 690 nodes; the third has pattern properties next to declared ones, tuple-typed items and nested sums) are damaged at every "
        "node in turn (null / retyped; thorough also emptied / deleted: about 2600 documents), plus a recursive allOf merge run in a process of its own (a fatal stack exhaustion cannot be recovered in process; when the batch process dies every document is re-run in isolation), and sent through the WHOLE pipeline of the tree's generator - it must return a diagnostic or write a package that "
        "builds; a panic is a violation. Time/memory bounds and diagnostic positions are NOT decided.",
   design="4 C11", technique="symbolic execution of go/ssa + SMT: no-panic/termination over symbolic fault selectors and short symbolic texts; concrete whole-pipeline fault matrix as a side-condition"),
 "C08": dict(
   category="translation_validation",
   cmd="python3-vt /verif/harness/C08/check_c08.py",
   text="Translation validation with the SMT theory of regular expressions: ECMA-262 patterns are enumerated bounded-exhaustively by AST size (<= 4 quick / 5 thorough over 44 atoms, plus a sweep of every \\cX, \\xHH, octal, \\u boundary and identity escape alone and inside classes, incl. "
        "\\d\\w\\s and negations, dot, \\c \\x \\u \\u{} octal and identity escapes, classes incl. []/[^]/[\\b], non-BMP literals; 8 quantifiers, groups, alternation, edge anchors); the REAL "
        "ogenregex.Convert/Compile of /repo's tree is run on each; when the linear-time engine is chosen the ECMA pattern (Unicode-aware reading of its AST) and the converted RE2 text are "
        "both turned into RegLan terms - the RE2 side from Go's own regexp/syntax parse of the expression the compiled value really holds - and z3 5.1 decides that the symmetric difference of the two search languages is empty for ALL subject strings (no length bound); a witness is replayed "
        "on the real ogenregex engine and on regexp2 (ECMAScript|Unicode) and counts only when the SMT reference and regexp2 agree against ogen. For every pattern whose conversion is proved equivalent the solver also picks a member of the search language and, for anchored patterns, a non-member that contains a member; the compiled value's real Match must decide both correctly (two-oracle rule with regexp2), so a fast path in the matching wrapper is seen although Convert's output is unchanged. Non-regular patterns (look-around, back-references incl. \\\\n after n groups for n = 1..12) are checked for engine choice; String() is checked natively; Convert's totality on all byte strings of 0..3 (5) bytes is decided by an SSA unit.",
   note="SMT-LIB regex semantics of z3 5.1.0; the ECMA-side pattern-to-RegLan translator written in this check and the mapping of Go's regexp/syntax AST to RegLan (validated by witness replay on the real engines); the matching engines themselves are not executed symbolically; alphabet: code points <= 0x2FFFF",
   design="4 C08", technique="SMT regular-expression equivalence (z3 seq/re theory) on Convert's real output + symbolic execution of Convert for totality"),
 "C01": dict(
   text="Bounded symbolic model checking of a full client->server->client exchange on code GENERATED in this run: the generated Client.<Op> is executed with a loop-back http client whose "
        "Do(r) runs the generated Server.ServeHTTP in process, i.e. the real path conv -> uri encoders -> URL assembly -> http.NewRequest -> router -> NormalizeEscapedPath -> PathUnescape -> "
        "uri decoders -> conv -> defaults -> middleware hook -> handler -> response encoder -> response decoder is executed symbolically. For symbolic caller values (path/query/header/cookie "
        "parameters of every location incl. arrays and a schema default, a JSON body with optional/defaulted/array members) and symbolic handler responses (200 with header, 4XX pattern with symbolic "
        "code, default codes, no-content) it asserts: a successful call ran middleware and handler once with exactly the caller's values (defaults applied), the middleware sees what the handler "
        "sees, the caller gets exactly the variant/status/header/body returned, and core-domain values are always delivered. A second spec adds path parameters declared in another order than the template, path-item-level and overriding parameters, zero-valued defaults in query/header/cookie, a required integer header, an enum "
        "parameter, no-content exact/pattern/default responses with headers, structured response headers (exploded and non-exploded object, array), and path parameters of array shape (simple and exploded matrix style) whose items are arbitrary bytes - an item containing the delimiter must be refused, never split. Two specs (five operations); the spec dimension is not explored.",
   design="4 C01", technique="symbolic execution of generated client and server Go code (go/ssa) in an in-process loop-back + SMT"),
 "C15": dict(
   text="Bounded symbolic model checking of a server GENERATED in this run (C01's spec) against hand-built *http.Request values that bypass net/http's validation: method from six choices x "
        "URL.Path of 0..4 (6) fully symbolic bytes with an independent symbolic RawPath; operation getP with symbolic RawQuery / Cookie / header texts and handler outcome; POST bodies with five "
        "content-type choices (incl. 3 symbolic bytes) and bodies that are corrupted by a symbolic window, truncated at every length, followed by symbolic trailing bytes or missing/mistyping the "
        "required member; structured getP requests (required boolean text, missing required, required/optional/defaulted primitive given twice, integer path text, repeated array / unknown parameter) with symbolic value texts against an "
        "independent recogniser; a second spec with a ranged media type (image/*: content types with arbitrary bytes around the type), an optional JSON body (declared / unknown length x content type x body) and runtime-status responses returned by the handler. Asserts: no panic, exactly one response, unrouted requests 404/405, parameter-stage failure => 400 and no handler, body-stage failure => 400/415 and no handler, handler "
        "error => 500, and against an independent recogniser: truncated / trailing-data / invalid-member bodies never reach the handler; a third spec for the SECURITY stage (operation requiring a header key AND a query key, OR bearer; an operation overriding with no requirement): symbolic credential presence and texts, symbolic SecurityHandler verdicts (accept / skip) and a symbolic path argument - the handler runs exactly when an alternative is fully presented and accepted and the argument is an integer, a security failure is answered 401, one response. Requirement STRUCTURES are C09's subject.",
   design="4 C15", technique="symbolic execution of generated server Go code (go/ssa) on symbolic hand-built requests + SMT"),
}

NA = {
 "C10": "quantifies over goroutine schedules and map-iteration orders of the whole generator; not an input a solver can range over (DESIGN.md section 6)",
 "C14": "finite list of concrete regenerate-and-diff runs; no symbolic dimension, the deciding step would be a diff, not a solver verdict",
 "C17": "mechanism is reflection-driven YAML/JSON (un)marshalling libraries that cannot be encoded; re-spelling documents is metamorphic testing, another technique",
 "C19": "interleavings and race detection; the SSA engine is single-goroutine by construction",
}
PENDING = "check not built yet in this session (see DESIGN.md build order); not claimed until it runs clean"
ALL = ["C%02d" % i for i in range(1, 21)]

def main():
    checks = []
    for pid in sorted(CHECKS):
        c = CHECKS[pid]
        checks.append({
            "property_id": pid,
            "quick_cmd": (c["cmd"] + " quick") if "cmd" in c else "/verif/bin/symgo check %s --tier quick" % pid,
            "thorough_cmd": (c["cmd"] + " thorough") if "cmd" in c else "/verif/bin/symgo check %s --tier thorough" % pid,
            "evidence_file": "/verif/evidence/%s.json" % pid,
            "replay_cmd_template": "sh {path}/replay.sh",
            "engine": "symgo",
            "level_claimed": {"category": c.get("category", "model_checking"), "text": c["text"], "design_ref": c["design"]},
            "level_note": c.get("note", TRUST),
            "technique": c["technique"],
        })
    na = []
    for pid in ALL:
        if pid in CHECKS: continue
        na.append({"property_id": pid, "reason": NA.get(pid, PENDING)})
    m = {
        "version": 1,
        "setup_cmd": "cd /verif/engine && GOFLAGS=-mod=mod GOPROXY=off GOSUMDB=off GOTOOLCHAIN=local go build -o /verif/bin/symgo ./cmd/symgo",
        "hooks": {
            "guard": "verif",
            "enable": "no source hooks: harnesses and intrinsics are injected with go/packages Overlay and go test -overlay; nothing is compiled into /repo",
            "baseline_off_cmd": "cd /repo && go test -mod=mod -vet=off -count=1 -timeout 25m ./...",
            "source_commits": [],
            "add_only": True,
        },
        "engines": [{"name": "symgo", "path": "/verif/engine", "serves_properties": sorted(CHECKS),
                     "kind_free_text": "KLEE-style symbolic interpreter over go/ssa of /repo's current source (re-execution forking, independence slicing, query cache), SMT-LIB2 bit-vector queries to z3/cvc5, native replay of every model"}],
        "checks": checks,
        "notes": "Exit codes: 0 held within the bound; 1 replayed unlisted violation (VIOLATION line); 2 inconclusive (unsupported construct, solver unknown, budget, vacuity, engine/native mismatch) - never reported as success. See DESIGN.md.",
        "not_applicable": na,
    }
    with open(os.path.join(os.path.dirname(__file__), "..", "MANIFEST.json"), "w") as f:
        json.dump(m, f, indent=1)
        f.write("\n")

main()
