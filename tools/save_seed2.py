#!/usr/bin/env python3
import sys, os, shutil, json, glob
sid, src, prop, needs, ran, detected = sys.argv[1:7]
dst = os.path.join('/verif/seeded', sid)
os.makedirs(dst, exist_ok=True)
for f in glob.glob(os.path.join(src, '*')):
    if os.path.isfile(f): shutil.copy(f, dst)
json.dump({"id": sid, "property": prop, "needs_to_manifest": needs, "confirmed_by": ran, "detected_by_check": detected}, open(os.path.join(dst, 'meta.json'), 'w'), indent=1)
print("saved", dst)
