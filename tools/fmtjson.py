#!/usr/bin/env python3
"""fmtjson.py <file>: rewrites a check.json with indent 1 and integer arrays kept on one line"""
import json, re, sys
p = sys.argv[1]
s = json.dumps(json.load(open(p)), indent=1)
s = re.sub(r"\[\s*((?:-?\d+\s*,\s*)*-?\d+)\s*\]", lambda m: "[" + re.sub(r"\s+", "", m.group(1)).replace(",", ", ") + "]", s)
s = re.sub(r"\[\s*((?:\[[-\d, ]*\]\s*,\s*)*\[[-\d, ]*\])\s*\]", lambda m: "[" + re.sub(r"\s*\n\s*", " ", m.group(1)) + "]", s)
open(p, "w").write(s + "\n")
