#!/bin/sh
# runs every registered quick command (refreshes /verif/evidence); prints one line per check
cd /verif
export VERIF_SEED=${VERIF_SEED:-1} VERIF_TIER=quick   # the way vp check runs them
python3 - <<'PY' > /tmp/.runall_cmds
import json
m=json.load(open('/verif/MANIFEST.json'))
for c in m['checks']:
    print(c['property_id']+"\t"+c['quick_cmd'])
PY
while IFS="$(printf '\t')" read -r id cmd; do
  s=$(date +%s)
  sh -c "$cmd" > /var/tmp/runall_$id.log 2>&1
  echo "$id exit=$? wall=$(( $(date +%s) - s ))s $(grep -c '^VIOLATION' /var/tmp/runall_$id.log) violations, $(grep -c '^KNOWN-FINDING' /var/tmp/runall_$id.log) known"
done < /tmp/.runall_cmds
