#!/bin/sh
# usage: confirm_seed3.sh <worktree> <seed-dir> <demo-target-dir-relative>
# Round-3 confirmation: (a) builds, (b) the WHOLE existing suite (go test ./... of the root module, SEEDED/ excluded)
# passes with the change except tests that fail on the unchanged tree too (TestGenerate/Examples/k8s),
# (c) demo (TestSeed*) fails with the change, (d) passes without.  Output: one summary line + details.
export GOFLAGS=-mod=mod GOPROXY=off GOSUMDB=off GOTOOLCHAIN=local
WT=$1; SEED=$2; TGT=$3
cd "$WT" || exit 2
git checkout -q -- . ; rm -rf SEEDED_run
demo_src=$(ls "$SEED"/*_test.go | head -1)
git apply "$SEED/patch.diff" || { echo "RESULT $(basename $SEED) APPLY-FAIL"; exit 2; }
go build ./... > /dev/null 2>&1 || { echo "RESULT $(basename $SEED) BUILD-FAIL"; git checkout -q -- .; exit 1; }
pk=$(go list ./... | grep -v /SEEDED)
go test -vet=off -count=1 -timeout 25m $pk 2>&1 | grep -v "no test files" | grep -v "^ok" > /tmp/confirm_$(basename $SEED).suite
suite_bad=$(grep -c '^--- FAIL' /tmp/confirm_$(basename $SEED).suite)
suite_names=$(grep '^--- FAIL\|^    --- FAIL\|^        --- FAIL' /tmp/confirm_$(basename $SEED).suite | tr -s ' ' | cut -d' ' -f4 | sort -u | tr '\n' ' ')
cp "$demo_src" "$TGT/"
go test -vet=off -count=1 -run 'TestSeed' "./$TGT" > /tmp/confirm_$(basename $SEED).with 2>&1; with=$?
git checkout -q -- .
go test -vet=off -count=1 -run 'TestSeed' "./$TGT" > /tmp/confirm_$(basename $SEED).without 2>&1; without=$?
rm -f "$TGT/$(basename $demo_src)"
echo "RESULT $(basename $SEED) build=ok suite_fail_lines=$suite_bad [$suite_names] demo_with_exit=$with demo_without_exit=$without"
git status --short | grep -v SEEDED
