#!/bin/sh
# usage: confirm_seed.sh <worktree> <seed-dir> <demo-dest-relative-path> <test-packages...>
# Confirms in a scratch worktree that a seeded change (a) builds, (b) passes the existing tests of the
# given packages, (c) makes its demonstration fail, and that the demonstration passes without it.
export GOFLAGS=-mod=mod GOPROXY=off GOSUMDB=off GOTOOLCHAIN=local
WT=$1; SEED=$2; DEMO=$3; shift 3
cd "$WT" || exit 2
git checkout -q -- . ; 
demo_src=$(ls "$SEED"/*_test.go | head -1)
demopkg=./$(dirname "$DEMO")
echo "## apply"; git apply "$SEED/patch.diff" || exit 2
echo "## build"; go build ./... || { echo BUILD-FAIL; git checkout -q -- .; exit 1; }
echo "## existing tests with change: $*"; go test -vet=off -count=1 "$@" 2>&1 | grep -v "no test files" | tail -15
cp "$demo_src" "$DEMO"
echo "## demo with change (must FAIL)"; go test -vet=off -count=1 -run 'Demo|ZZ|Seed' "$demopkg" 2>&1 | tail -4
git checkout -q -- .
echo "## demo without change (must PASS)"; go test -vet=off -count=1 -run 'Demo|ZZ|Seed' "$demopkg" 2>&1 | tail -3
rm -f "$DEMO"
git status --short | grep -v SEEDED
