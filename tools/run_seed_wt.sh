#!/bin/sh
# usage: run_seed_wt.sh <worktree> <seed-dir> <check-id>...   applies the seeded patch in a scratch worktree and runs
# the quick checks against it (SYMGO_REPO), so /repo stays free; evidence goes to /var/tmp/seedrun-out.
WT=$1; SEED=$2; shift 2
git -C $WT checkout -q -- . && git -C $WT apply "$SEED/patch.diff" || exit 2
export VERIF_SEED=${VERIF_SEED:-1}
n=$(basename $SEED)
for id in "$@"; do
  cmd=$(python3 -c "import json;print([c['quick_cmd'] for c in json.load(open('/verif/MANIFEST.json'))['checks'] if c['property_id']=='$id'][0])")
  s=$(date +%s)
  SYMGO_REPO=$WT SYMGO_OUT=/var/tmp/seedrun-out/$n sh -c "$cmd ${TIER:+--tier $TIER}" > /var/tmp/seedrun_${n}_$id.log 2>&1
  echo "SEED $n check=$id exit=$? wall=$(( $(date +%s) - s ))s viol=$(grep -c '^VIOLATION' /var/tmp/seedrun_${n}_$id.log) inconcl=$(grep -c '^INCONCLUSIVE' /var/tmp/seedrun_${n}_$id.log)"
done
git -C $WT checkout -q -- .
