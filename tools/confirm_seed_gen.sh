#!/bin/sh
# usage: confirm_seed_gen.sh <worktree> <seed-dir> <test-packages...>   (seeds whose demonstration is a demo.sh that regenerates code)
export GOFLAGS=-mod=mod GOPROXY=off GOSUMDB=off GOTOOLCHAIN=local
WT=$1; SEED=$2; shift 2
cd "$WT" || exit 2
git checkout -q -- .
echo "## apply"; git apply "$SEED/patch.diff" || exit 2
echo "## build"; go build ./... || { echo BUILD-FAIL; git checkout -q -- .; exit 1; }
echo "## existing tests with change: $*"; go test -vet=off -count=1 "$@" 2>&1 | grep -v "no test files" | grep -v "^ok" | head -12; echo "(only non-ok lines shown)"
echo "## demo with change (must FAIL)"; bash "$SEED/demo.sh" > /tmp/demo.out 2>&1; echo "exit=$?"; tail -3 /tmp/demo.out
git checkout -q -- .
echo "## demo without change (must PASS)"; bash "$SEED/demo.sh" > /tmp/demo.out 2>&1; echo "exit=$?"; tail -2 /tmp/demo.out
rm -rf internal/zzgenrun internal/zzdemo
git status --short | grep -v SEEDED
