#!/usr/bin/env python3
"""save_seed.py <id> <seed-dir> <property> <needs> <ran> <detected-by>: stores a confirmed seeded change under /verif/seeded/<id>/"""
import sys, os, shutil, json, glob
sid, src, prop, needs, ran, detected = sys.argv[1:7]
dst = os.path.join('/verif/seeded', sid)
os.makedirs(dst, exist_ok=True)
shutil.copy(os.path.join(src, 'patch.diff'), dst)
for f in glob.glob(os.path.join(src, '*_test.go')) + glob.glob(os.path.join(src, 'notes.txt')):
    shutil.copy(f, dst)
json.dump({"id": sid, "property": prop, "needs_to_manifest": needs, "confirmed_by": ran, "detected_by_check": detected}, open(os.path.join(dst, 'meta.json'), 'w'), indent=1)
print("saved", dst)
